import Capella.Lemmas.Reads
import Capella.Lemmas.Factories
import Capella.Gen.Effects
import Capella.Lemmas.RenderCache
import Capella.Lemmas.Introspect
import Capella.Gen.Introspect

/-!
# C11 — reading and rendering never change the model

Property theorems only; helper lemmas live in `Capella/Lemmas/Reads.lean`, the model in
`Capella/Model/Reads.lean`.

Honest label: for the plain reads (`attr`, `has`, `dump`, `search`, `refsTo`) purity holds by
construction — they are functions `State → Out`.  The theorems carry real content only for
rendering, which is modelled as a fold of element factories threading the state, in the variant
that was coded (three factories write into the XML) and the repaired one.  Detection on the real
code is the job of the monitor in `harness/props/c11.py`.
-/
namespace Capella.Props.C11
open Capella.Reads

/-- Any history of read operations (attribute reads, lookups, dir/repr dumps, type searches,
reference searches, diagram renders — in any order, with repetition) leaves what `save` writes
unchanged, whatever function of the state `save` is. -/
theorem reads_pure {β : Type} (save : State → β) (s : State) (ops : List ReadOp) :
    save (run .repaired s ops).1 = save s := by
  rw [run_repaired_state]

/-- … and every answer in the history is the answer the initial state gives to that operation
alone: results do not depend on what was read or rendered before. -/
theorem reads_order_irrelevant (s : State) (ops : List ReadOp) :
    (run .repaired s ops).2 = ops.map (fun op => (step .repaired s op).2) :=
  run_repaired_outs s ops

/-- The repaired label-computing factories return the tree unchanged (one element). -/
theorem factory_tree_unchanged (s : State) (e : DElem) : (elemStep .repaired s e).1 = s :=
  elemStep_repaired_state s e

/-- Rendering a diagram with the repaired factories returns the tree unchanged. -/
theorem render_tree_unchanged (s : State) (d : Str) : (render .repaired s d).1 = s :=
  render_repaired_state s d

/-- On the same state, a repaired factory draws exactly what the coded one drew (label text and
symbol flag), for every factory kind and every attribute combination. -/
theorem factory_same_drawing (s : State) (e : DElem) :
    (elemStep .coded s e).2 = (elemStep .repaired s e).2 :=
  elemStep_same_drawing s e

/-- A whole diagram renders identically before and after the repair, provided no semantic element
is shown twice in it (the hypothesis the proof forces: see `render_same_drawing_needs_nodup`). -/
theorem render_same_drawing (s : State) (d : Str)
    (h : ∀ dg, findDiagram s.dgs d = some dg → (dg.elems.map (·.sem)).Nodup) :
    (render .coded s d).2 = (render .repaired s d).2 := by
  unfold render
  cases hd : findDiagram s.dgs d with
  | none => rfl
  | some dg =>
    exact renderElems_same_drawing [] s s dg.elems (Agree.refl _ _)
      (fun _ _ hm => by simp at hm) (h dg hd)

/-- The full statement "`run` with the factories *as coded* leaves the state unchanged" is false:
rendering one requirement relation writes its `name`. -/
def C11_coded_pure : Prop := ∀ (s : State) (ops : List ReadOp), (run .coded s ops).1 = s

def witnessState : State :=
  { sem := [⟨"r".toList, "CapellaIncomingRelation".toList, [(kRelType, "#t".toList)]⟩,
            ⟨"t".toList, "RelationType".toList, [(kLongName, "satisfies".toList)]⟩]
    dgs := [⟨"d".toList, [⟨"e1".toList, "CapellaIncomingRelation".toList, "r".toList, none, []⟩]⟩] }

theorem C11_coded_pure_fails : ¬ C11_coded_pure := by
  intro h
  have := h witnessState [.render "d".toList]
  revert this
  decide

/-- Without the no-duplicate hypothesis the coded renderer was order dependent: an include/extend
edge shown twice with different diagram-side names took the first name for both. -/
def dupState : State :=
  { sem := [⟨"x".toList, "AbstractCapabilityInclude".toList, []⟩]
    dgs := [⟨"d".toList, [⟨"e1".toList, "AbstractCapabilityInclude".toList, "x".toList, some "a".toList, []⟩,
                          ⟨"e2".toList, "AbstractCapabilityInclude".toList, "x".toList, some "b".toList, []⟩]⟩] }

theorem render_same_drawing_needs_nodup :
    ¬ ∀ (s : State) (d : Str), (render .coded s d).2 = (render .repaired s d).2 := by
  intro h
  have := h dupState "d".toList
  revert this
  decide

/-- PVMT access only ever adds: the groups present before are a prefix of the groups after. -/
theorem pvmt_additive (gs : List PVGroup) (d : PVGroup) : gs <+: (pvmtApply gs d).1 :=
  pvmtApply_fst_prefix gs d

/-- PVMT first use is idempotent: once a group has been applied (from a state with at most one
group of that name), applying again changes nothing and returns the same group. -/
theorem pvmt_first_use_idempotent (gs : List PVGroup) (d : PVGroup)
    (h : (gs.filter (fun g => g.name = d.name)).length ≤ 1) :
    pvmtApply (pvmtApply gs d).1 d = ((pvmtApply gs d).1, (pvmtApply gs d).2) := by
  exact pvmtApply_of_single _ d _ (pvmtApply_single gs d h)

/-- The hypothesis is needed: with two groups of the same name already present, `by_name(…,
single=True)` raises, is taken for "not applied", and every access appends another group. -/
theorem pvmt_idempotent_needs_unique :
    ¬ ∀ (gs : List PVGroup) (d : PVGroup),
        pvmtApply (pvmtApply gs d).1 d = ((pvmtApply gs d).1, (pvmtApply gs d).2) := by
  intro h
  have := h [⟨"D.G".toList, []⟩, ⟨"D.G".toList, []⟩] ⟨"D.G".toList, []⟩
  revert this
  decide

/-! ## Effects: programs over the model trees, the live dispatch tables, the effect table of the parser

From here on purity is not built into the model: a factory is a program that talks to the trees through
requests, write requests exist, and the three factories as they were coded are programs of this kind
that do write (`Capella.Factories.Coded`). -/

open Capella.Effects Capella.Factories in
/-- Frame rule, for every program and every tree: if no write request is reachable in the program, running it
returns the tree it was given. -/
theorem program_frame {α : Type} (p : Prog α) (h : Prog.ReadOnly p) (t : Tree) : (p.exec t).1 = t :=
  Prog.exec_readOnly h t

open Capella.Effects in
/-- The same from the run instead of the program text: if the requests a run issued were all reads (this is
what the write barrier observes on the implementation), the tree is unchanged. No assumption on the program. -/
theorem trace_frame {α : Type} (p : Prog α) (t : Tree) (h : (p.trace t).all Instr.isRead = true) :
    (p.exec t).1 = t :=
  Prog.exec_of_trace_reads p t h

open Capella.Effects Capella.Factories in
/-- Every row of the dispatch tables generated from the live code (`STYLECLASS_LOOKUP` with the generic
fallback, `VISUAL_TYPES`, `COMPOSITE_FILTERS`, `GLOBAL_FILTERS`) names a function the model implements … -/
theorem live_tables_modelled : tableModelled Capella.Gen.Effects.table.dispatch := by
  intro r hr
  exact List.all_eq_true.mp Capella.Gen.Effects.dispatch_factories_modelled r hr

open Capella.Effects Capella.Factories in
/-- … and the factory behind every row returns the tree unchanged, for every tree, every element builder and
every diagram under construction.  A newly registered factory makes `live_tables_modelled` fail (`.other`);
a modelled factory that gains a write makes its `ro_…` lemma fail. -/
theorem factory_pure (r : DispatchRow) (hr : r ∈ Capella.Gen.Effects.table.dispatch) (s : Seb) (ctx : Ctx)
    (t : Tree) : ((factoryProg (Factory.ofName r.name) s ctx).exec t).1 = t :=
  Prog.exec_readOnly (ro_row live_tables_modelled hr s ctx) t

open Capella.Effects Capella.Factories in
/-- `parse_diagram`'s element loop over the live tables — any number of elements, each seeing what was drawn
before — returns the tree unchanged. -/
theorem parse_diagram_pure (dtree : Nat) (ds : List Nat) (ctx : Ctx) (t : Tree) :
    ((parseElems Capella.Gen.Effects.table.dispatch dtree ds ctx).exec t).1 = t :=
  Prog.exec_readOnly (ro_parseElems live_tables_modelled dtree ds ctx) t

open Capella.Effects Capella.Factories in
/-- Rendering is a function of (tree, diagram, what was drawn): parsing after any other read-only program gives
the picture parsing alone gives. -/
theorem parse_diagram_independent {α : Type} (p : Prog α) (hp : Prog.ReadOnly p) (dtree : Nat) (ds : List Nat)
    (ctx : Ctx) (t : Tree) :
    ((parseElems Capella.Gen.Effects.table.dispatch dtree ds ctx).exec (p.exec t).1).2
      = ((parseElems Capella.Gen.Effects.table.dispatch dtree ds ctx).exec t).2 :=
  Prog.exec_after_readOnly hp _ t

open Capella.Effects in
/-- The effect table generated from the source of the live `capellambse.aird` package: every access site of
every function in the call-graph closure of the read-only entry points and of all registered table entries is
harmless — a read, or a store into something that is not a model tree, or a hand-over to a known reader. -/
theorem parser_effects_pure (r : EffRow) (hr : r ∈ Capella.Gen.Effects.rowChunks.flatten)
    (hreach : r.fn ∈ Capella.Gen.Effects.table.reach) : r.ok = true := by
  rcases List.mem_flatten.mp hr with ⟨ch, hch, hrc⟩
  have h1 := List.all_eq_true.mp (Capella.Gen.Effects.rows_pure ch hch) r hrc
  have h2 : r.fn ∈ Capella.Gen.Effects.reachable :=
    reach_subset _ _ Capella.Gen.Effects.reach_roots Capella.Gen.Effects.reach_closed _ hreach
  simp only [EffRow.okIn, Bool.or_eq_true, Bool.not_eq_true'] at h1
  rcases h1 with h1 | h1
  · have : Capella.Gen.Effects.reachable.contains r.fn = true := by simpa using h2
    rw [this] at h1; cases h1
  · exact h1

open Capella.Effects Capella.Factories in
/-- The factories as they were coded are expressible and are *not* pure: `req_relation_factory` with its
`finally: attrib["name"] = label` changes this tree. (Kept so that a reverted repair is recognisable.) -/
def effWitness : Tree := [
  ⟨S "edges", [(S "element", S "e1"), (S "source", S "b1"), (S "target", S "b1")], [1], none, none⟩,
  ⟨S "bendpoints", [], [], some 0, none⟩,
  ⟨S "ownedDiagramElements", [(S "uid", S "e1")], [3], none, none⟩,
  ⟨S "ownedStyle", [], [], some 2, none⟩,
  ⟨S "ownedRelations", [(S "id", S "r"), (S "relationType", S "#t")], [], none, none⟩,
  ⟨S "ownedRelationTypes", [(S "id", S "t"), (S "ReqIFLongName", S "satisfies")], [], none, none⟩]

open Capella.Effects Capella.Factories in
def effSeb : Seb := { data := 0, diag := 2, dtree := 9, objs := [4], styleclass := some (S "RequirementRelation") }

open Capella.Effects Capella.Factories in
theorem coded_factory_writes :
    ((Coded.edgeReqRel effSeb [⟨S "b1", true, none⟩]).exec effWitness).1 ≠ effWitness := by decide

open Capella.Effects Capella.Factories in
/-- … and an unknown factory is modelled by the worst case, so it can never be proved pure by accident. -/
theorem unknown_factory_not_pure (n : Capella.Effects.Str) :
    ((factoryProg (.other n) effSeb []).exec effWitness).1 ≠ effWitness := by
  show ((unknownFactory effSeb).exec effWitness).1 ≠ effWitness
  decide

/-! ## The render cache of a diagram object (`__render_fresh`, `invalidate_cache`)

Python-level caches are not part of what `save()` writes; what can be asked of them is transparency: a cached
render answers what a fresh render would. -/

open Capella.RenderCache in
/-- With the parameters of the last fresh render remembered (`.keyed`, what the docstring of
`_last_render_params` describes) the cache is transparent: in every history of `render(None, **p)` and
`invalidate_cache()` calls every render returns (or raises) exactly what `_create_diagram(p)` gives. -/
theorem render_cache_transparent_keyed {Pic Err : Type} (create : Params → Except Err Pic) (errImg : Err → Pic)
    (ops : List Op) :
    (run .keyed create errImg Cache.init ops).map (Option.map (·.2)) = ops.map (spec create) :=
  run_keyed create errImg _ (inv_init create errImg) ops

open Capella.RenderCache in
/-- The full statement for the code as it is (`_last_render_params` is never assigned after `__init__`). -/
def render_cache_transparent_full : Prop :=
  ∀ (create : Params → Except Unit Params) (ops : List Op),
    (run .coded create (fun _ => []) Cache.init ops).map (Option.map (·.2)) = ops.map (spec create)

open Capella.RenderCache in
/-- It fails: after `render(None, a=1)` a plain `render(None)` is served the picture made with `a=1`
(replayed on the implementation in the `cache` stream; not a violation of C11 — nothing is written). -/
theorem render_cache_transparent_full_fails : ¬ render_cache_transparent_full := by
  intro h
  have h1 := h (fun p => .ok p) [.render [(['a'], ['1'])], .render []]
  have h2 := congrArg (List.map (fun (o : Option (Except Unit Params)) =>
    match o with | some (.ok p) => some p | _ => none)) h1
  revert h2
  decide

open Capella.RenderCache in
/-- The strongest statement the code does satisfy: on histories that use one set of parameters throughout
(any number of renders and invalidations) the cache is transparent. -/
theorem render_cache_transparent_partial {Pic Err : Type} (create : Params → Except Err Pic) (errImg : Err → Pic)
    (p0 : Params) (ops : List Op) (h : ∀ op ∈ ops, op = .render p0 ∨ op = .invalidate) :
    (run .coded create errImg Cache.init ops).map (Option.map (·.2)) = ops.map (spec create) :=
  run_coded_single create errImg p0 _ (by simp [InvCoded, Cache.init]) ops h

/-! ## Introspection never crashes: the representation loops (`__repr__`, `__html__`, `_short_html_` of model objects and
element lists)

`getattr` is inside `try … except Exception: continue`; the formatting of the value that was read is not.  The sites
(where a value is handed to a formatter, under which tests) and the value classes (which representation methods they
define, which of them raise on an instance over an empty element) are generated from the live code
(`harness/gen_introspect.py` → `Capella/Gen/Introspect.lean`). -/

open Capella.Introspect in
/-- Attribute reads that fail — with `AttributeError` ("No specification found") or with anything else — never matter:
the loop produces what it produces on the attributes that could be read. -/
theorem repr_loop_skips_failed_reads (o : Bool) (sites : List Site) (attrs : List Got) :
    loop o sites attrs = loop o sites (attrs.filter (fun g => match g with | .value _ => true | _ => false)) :=
  loop_filter o sites attrs

open Capella.Introspect in
/-- A representation loop completes on every table of attribute outcomes **iff** every formatter it can reach completes
on every value: there is no other way for `repr()` / `_repr_html_()` to raise, and no formatter is harmless. -/
theorem repr_loop_total_iff (o : Bool) (sites : List Site) :
    (∀ attrs, loop o sites attrs = true) ↔ ∀ v : Val, sites.all (fun s => s.runOn o v) = true := by
  constructor
  · intro h v
    have := (loop_true_iff o sites [.value v]).1 (h [.value v]) v (by simp)
    exact this
  · intro h attrs
    exact (loop_true_iff o sites attrs).2 (fun v _ => h v)

open Capella.Introspect in
/-- Each loop (`fn` = `ModelElement.__html__`, …) as it is in the live code completes on every object whose attribute values belong to the generated value
classes and raise at most where the table says the class is partial (the hypothesis the monitor of
`harness/c11_states.py` checks on unusual states): for every such table of attribute outcomes, whatever the unknown tests
evaluate to.  Rests on the generated obligation `sites_total`. -/
theorem live_repr_loops_total (fn : List Char) (o : Bool) (attrs : List Got)
    (h : ∀ v, Got.value v ∈ attrs → v.cls ∈ Capella.Gen.Introspect.classes ∧ v.conforms ∧
      ∀ s ∈ sitesOf Capella.Gen.Introspect.sites fn, s.attrOk v.cls = true) :
    loop o (sitesOf Capella.Gen.Introspect.sites fn) attrs = true := by
  rw [loop_true_iff]
  intro v hv
  obtain ⟨hcl, hcf, hat⟩ := h v hv
  rw [List.all_eq_true]
  intro s hs0
  have hs : s ∈ Capella.Gen.Introspect.sites := (List.mem_filter.1 hs0).1
  have ht := Capella.Gen.Introspect.sites_total
  unfold tableOk at ht
  rw [List.all_eq_true] at ht
  have h1 := ht s hs
  rw [List.all_eq_true] at h1
  exact runOn_of_siteOk o s v hcf (hat s hs0) (h1 v.cls hcl)

open Capella.Introspect in
/-- A loop that lets values with an `__html__` of their own render themselves through `escape(value)` outside the guard
(the tempting one-line improvement of `ModelElement.__html__`) is **not** total: a specification with no body is a
value whose `__html__` raises.  The table obligation is false for it, and a concrete object makes the loop raise. -/
theorem escape_any_value_not_total :
    tableOk escapeAnySites [specClass] = false ∧
    ∃ attrs, loop false escapeAnySites attrs = false := by
  refine ⟨by decide, [.attrError, .value ⟨specClass, fun m => m == mStr || m == mHtml⟩], by decide⟩

-- Non-vacuity: the statements say something on concrete inputs.
example : (render .coded witnessState "d".toList).2 = [⟨"e1".toList, "satisfies".toList, false⟩] := by decide
example : (render .repaired witnessState "d".toList).2 = [⟨"e1".toList, "satisfies".toList, false⟩] := by decide
example : (render .coded witnessState "d".toList).1 ≠ witnessState := by decide
example : (run .repaired witnessState [.render "d".toList, .attr "r".toList kName, .refsTo "t".toList,
    .search ["RelationType".toList]]).2
    = [.pic [⟨"e1".toList, "satisfies".toList, false⟩], .str none, .ids ["r".toList], .ids ["t".toList]] := by decide
example : (pvmtApply [] ⟨"D.G".toList, []⟩).1 = [⟨"D.G".toList, []⟩] := by decide
example : (elemStep .repaired ⟨[⟨"p".toList, "ForkPseudoState".toList, []⟩], []⟩
    ⟨"e".toList, "ForkPseudoState".toList, "p".toList, none, []⟩).2 = some ⟨"e".toList, [], true⟩ := by decide

open Capella.Effects Capella.Factories in
example : ((edgeReqRel effSeb [⟨S "b1", true, none⟩]).exec effWitness).1 = effWitness := by decide
open Capella.Effects Capella.Factories in
example : ((edgeReqRel effSeb [⟨S "b1", true, none⟩]).exec effWitness).2
    = .drawn ⟨S "e1", false, some (S "RequirementRelation"), [], [], none, false, false, false, false, none⟩ := by decide
open Capella.Effects Capella.Factories in
example : ((Coded.edgeReqRel effSeb [⟨S "b1", true, none⟩]).trace effWitness).any (fun i => !i.isRead) = true := by decide
open Capella.RenderCache in
example : (run .coded (fun p => (.ok p : Except Unit Params)) (fun _ => []) Cache.init
    [.render [], .render [], .invalidate, .render []]).map (Option.map (·.1)) = [some true, some false, none, some true] := by decide
example : Capella.Gen.Effects.table.dispatch.length ≥ 50 := by decide
open Capella.Introspect in
example : loop false (sitesOf Capella.Gen.Introspect.sites "ModelElement.__html__".toList)
    [.attrError, .value ⟨specClass, fun m => m == mStr || m == mHtml⟩, .otherError] = true := by decide
open Capella.Introspect in
example : Capella.Gen.Introspect.sites.length ≥ 8 ∧ Capella.Gen.Introspect.classes.any (fun c => !c.partialOn.isEmpty) = true := by decide
example : Capella.Gen.Effects.reachable.length ≥ 60 := by decide

end Capella.Props.C11
