import Capella.Lemmas.Cache
import Capella.Lemmas.CacheSM
import Capella.Gen.Formats

/-!
# C19 — diagram cache lookups return the cached image of exactly that diagram

Property theorems only; helper lemmas live in `Capella/Lemmas/Cache.lean`, the converter table is
generated into `Capella/Gen/Formats.lean` from the live entry points.

Reading guide: `T` is a converter table, `ops` what the converters compute (arbitrary functions),
`openf` the cache handler (`none` = `FileNotFoundError`), `fresh` what the internal rendering
engine yields, `cfg.cache` = "a diagram cache is configured", `cfg.allowRender` =
`fallback_render_aird`, `u` the diagram's uuid, `f` the requested format name.
-/
namespace Capella.Props.C19
open Capella.Cache Capella.Gen.Formats

/-- The generated converter table satisfies every well-formedness condition the generic theorems
need (six kernel-checked obligations over the live entry points). -/
theorem table_wf : table.WF :=
  ⟨formats_acyclic, formats_dispatch_agree, formats_suffix_free, formats_usable_registered,
   formats_ids_nodup⟩

/-- The `depends` chain of every registered format ends: the unbounded Python generator
`_walk_converters` (described by `Chain`) yields exactly the list the model computes, and no
converter object occurs twice on it. -/
theorem chain_acyclic :
    ∀ e ∈ table.entries, ∃ ch, table.chain e.2 = some ch ∧ Chain table e.2 ch ∧
      (ch.map (·.id)).Nodup := by
  intro e he
  have h := formats_acyclic
  unfold Table.acyclicB at h
  rw [List.all_eq_true] at h
  have := h e he
  cases hc : table.chain e.2 with
  | none => rw [hc] at this; cases this
  | some ch => exact ⟨ch, rfl, walk_sound hc, (walk_sound hc).nodup⟩

/-- `walk` with any sufficient fuel is the fuel-free chain, for every table: the model's bound is
not a restriction. -/
theorem chain_fuel_irrelevant (T : Table) (i : Str) (ch : List Conv) :
    Chain T i ch ↔ ∃ n, walk T n i = some ch :=
  ⟨fun h => ⟨ch.length, walk_complete h _ (Nat.le_refl _)⟩, fun ⟨_, h⟩ => walk_sound h⟩

/-- **Cache hit.** With a cache configured, if position `k` of the format's chain is the nearest
cached ancestor (first cache-loadable converter whose file `u ++ ext` exists), then `render`
returns that file, loaded with that converter's `from_cache` and converted forward through the
`k` converters in front of it, nearest first — whatever the other settings are. The handler is
asked exactly for the names of the cache-loadable converters up to position `k`, in order, and
the internal rendering engine does not run. -/
theorem cache_hit_spec {B D : Type} (T : Table) (ops : Ops B D) (openf : Str → Option B)
    (fresh : Except Err D) (cfg : Cfg) (u f i : Str) (ch : List Conv) (pretty : Bool)
    (hf : T.entry f = some i) (hc : T.chain i = some ch) (hcache : cfg.cache = true)
    (k : Nat) (c : Conv) (e : Str) (b : B) (hn : Nearest openf u ch k c e b) :
    render T ops openf fresh cfg u (some f) pretty =
      ((probedNames u ch k).map .opened ++ [.fromCache c.id] ++ evsLoad (ch.take k),
       .ok (runLoad ops (ch.take k) (ops.fromCache c.id b))) :=
  render_hit T ops fresh pretty hf hc hcache hn

/-- The situation of `cache_hit_spec` or that of the two miss theorems always applies, and the
nearest cached ancestor is unique. -/
theorem hit_or_miss {B : Type} (openf : Str → Option B) (u : Str) (ch : List Conv) :
    (∃ k c e b, Nearest openf u ch k c e b ∧
        ∀ k' c' e' b', Nearest openf u ch k' c' e' b' → k = k' ∧ c = c' ∧ e = e' ∧ b = b')
      ∨ NoneCached openf u ch := by
  rcases nearest_or_none openf u ch with ⟨k, c, e, b, h⟩ | h
  · exact .inl ⟨k, c, e, b, h, fun _ _ _ _ h' => h.unique h'⟩
  · exact .inr h

/-- **Identical to converting the cached file directly.** For a well-formed table (in particular
the generated one) the value returned on a cache hit is what `convert_format(<cached format>,
<requested format>, from_cache(bytes))` returns, the cached format being registered under some
entry-point name `s`. -/
theorem cache_hit_is_direct_conversion {B D : Type} (T : Table) (wf : T.WF) (ops : Ops B D)
    (openf : Str → Option B) (fresh : Except Err D) (cfg : Cfg) (u f i : Str) (ch : List Conv)
    (pretty : Bool) (hf : T.entry f = some i) (hc : T.chain i = some ch)
    (hcache : cfg.cache = true) (k : Nat) (c : Conv) (e : Str) (b : B)
    (hn : Nearest openf u ch k c e b) :
    ∃ s, T.entry s = some c.id ∧
      (render T ops openf fresh cfg u (some f) pretty).2 =
        convertFormat T ops (some s) f false (ops.fromCache c.id b) := by
  have hchain := Table.chain_sound hc
  have hcm : c ∈ ch := List.mem_of_getElem? hn.1
  obtain ⟨s, hs⟩ := wf.registered_entry (hchain.mem_convs c hcm) (usableFor_some hn.2.1).1
  refine ⟨s, hs, ?_⟩
  rw [render_hit T ops fresh pretty hf hc hcache hn]
  have hany : ch.any (fun x => x.id == c.id) = true :=
    List.any_eq_true.mpr ⟨c, hcm, by simp⟩
  have htw := takeWhile_id_ne hchain.nodup hn.1
  have hdisp : ∀ x ∈ ch.take k, x.hasConvert = x.isFormat :=
    fun x hx => wf.dispatch_mem (hchain.mem_convs x (List.mem_of_mem_take hx))
  simp only [convertFormat, hs, hf, hc, hany, htw, if_true]
  rw [runLoad_eq_runChain ops hdisp]

/-- **File names identify diagram and format**, for all strings: with the generated extension
table, `u ++ e = u' ++ e'` forces `u = u'` and `e = e'`. -/
theorem name_injective (u u' e e' : Str) (he : e ∈ table.exts) (he' : e' ∈ table.exts)
    (h : u ++ e = u' ++ e') : u = u' ∧ e = e' :=
  Capella.Cache.name_injective (suffixFree_of_B formats_suffix_free) he he' h

/-- **Never a file of another diagram.** Every name `render` opens on the cache handler is
`u ++ e` with `e` a cache extension of the table; if the table's extensions are suffix-free (the
generated one is) such a name is not the cache file `u' ++ e'` of any other uuid `u'`. Holds for
every table, handler, uuid, format and flag setting. -/
theorem never_other_diagram {B D : Type} (T : Table) (hs : suffixFreeB T.exts = true)
    (ops : Ops B D) (openf : Str → Option B) (fresh : Except Err D) (cfg : Cfg) (u : Str)
    (fmt : Option Str) (pretty : Bool) :
    ∀ n ∈ openedNames (render T ops openf fresh cfg u fmt pretty).1,
      (∃ e ∈ T.exts, n = u ++ e) ∧ ∀ u' e', e' ∈ T.exts → n = u' ++ e' → u' = u := by
  intro n hn
  obtain ⟨c, hc, e, he, rfl⟩ := render_opened_sub T ops openf fresh cfg u fmt pretty n hn
  have hmem := usableExt_mem_exts hc (usableFor_some he).1
  refine ⟨⟨e, hmem, rfl⟩, ?_⟩
  intro u' e' he' heq
  exact (Capella.Cache.name_injective (suffixFree_of_B hs) hmem he' heq).1.symm

/-- **Other files are irrelevant.** Two cache states that agree on the files `u ++ e` of this
diagram (for the table's cache extensions) give the same result and the same trace: files of
other diagrams and unrelated files can be added, removed or changed freely. -/
theorem other_files_irrelevant {B D : Type} (T : Table) (ops : Ops B D)
    (openf openf' : Str → Option B) (fresh : Except Err D) (cfg : Cfg) (u : Str)
    (fmt : Option Str) (pretty : Bool)
    (h : ∀ e ∈ T.exts, openf (u ++ e) = openf' (u ++ e)) :
    render T ops openf fresh cfg u fmt pretty = render T ops openf' fresh cfg u fmt pretty :=
  render_congr T ops fresh cfg u fmt pretty h

/-- **Miss without fallback is an error.** Cache configured, nothing usable cached,
`fallback_render_aird` off: `render` raises "not in cache"; it has only asked the handler for this
diagram's files — no converter and not the rendering engine ran. -/
theorem miss_is_error_unless_fallback {B D : Type} (T : Table) (ops : Ops B D)
    (openf : Str → Option B) (fresh : Except Err D) (cfg : Cfg) (u f i : Str) (ch : List Conv)
    (pretty : Bool) (hf : T.entry f = some i) (hc : T.chain i = some ch)
    (hcache : cfg.cache = true) (hallow : cfg.allowRender = false)
    (hn : NoneCached openf u ch) :
    render T ops openf fresh cfg u (some f) pretty =
      (((ch.filterMap (usableFor u)).map (u ++ ·)).map .opened, .error .notInCache) :=
  render_miss_noallow T ops fresh pretty hf hc hcache hallow hn

/-- **Miss with fallback equals rendering without a cache.** Cache configured, nothing usable
cached, `fallback_render_aird` on: the value is the value `render` returns for the same model
loaded without any cache (whatever its fallback flag), and the trace is the probing of this
diagram's files followed by the uncached trace. -/
theorem fallback_equals_uncached {B D : Type} (T : Table) (ops : Ops B D)
    (openf openf' : Str → Option B) (fresh : Except Err D) (cfg : Cfg) (a : Bool) (u f i : Str)
    (ch : List Conv) (pretty : Bool) (hf : T.entry f = some i) (hc : T.chain i = some ch)
    (hcache : cfg.cache = true) (hallow : cfg.allowRender = true)
    (hn : NoneCached openf u ch) :
    let uncached := render T ops openf' fresh { cache := false, allowRender := a } u (some f) pretty
    (render T ops openf fresh cfg u (some f) pretty).2 = uncached.2 ∧
    (render T ops openf fresh cfg u (some f) pretty).1 =
      ((ch.filterMap (usableFor u)).map (u ++ ·)).map .opened ++ uncached.1 := by
  simp only
  rw [render_miss_allow T ops fresh pretty hf hc hcache hallow hn,
    render_nocache T ops openf' fresh pretty hf hc rfl]
  exact ⟨rfl, rfl⟩

/-- Without a configured cache nothing is opened and neither the handler nor the fallback flag
matters. -/
theorem uncached_opens_nothing {B D : Type} (T : Table) (ops : Ops B D)
    (openf openf' : Str → Option B) (fresh : Except Err D) (a a' : Bool) (u : Str)
    (fmt : Option Str) (pretty : Bool) :
    render T ops openf fresh ⟨false, a⟩ u fmt pretty = render T ops openf' fresh ⟨false, a'⟩ u fmt pretty ∧
    openedNames (render T ops openf fresh ⟨false, a⟩ u fmt pretty).1 = [] := by
  cases fmt with
  | none => exact ⟨rfl, openedNames_renderFresh ops fresh pretty []⟩
  | some f =>
    cases hf : T.entry f with
    | none => simp [render, hf, openedNames]
    | some i =>
      cases hc : T.chain i with
      | none => simp [render, hf, hc, openedNames]
      | some ch =>
        rw [render_nocache T ops openf fresh pretty hf hc rfl,
          render_nocache T ops openf' fresh pretty hf hc rfl]
        exact ⟨rfl, openedNames_renderFresh ops fresh pretty ch⟩

/-- `diagram.as_<fmt>` on a hit is `render(fmt)`. -/
theorem as_fmt_hit {B D : Type} (T : Table) (ops : Ops B D) (openf : Str → Option B)
    (fresh : Except Err D) (cfg : Cfg) (u f i : Str) (ch : List Conv)
    (hf : T.entry f = some i) (hc : T.chain i = some ch) (hcache : cfg.cache = true)
    (k : Nat) (c : Conv) (e : Str) (b : B) (hn : Nearest openf u ch k c e b) :
    asFmt T ops openf fresh cfg u f = render T ops openf fresh cfg u (some f) false := by
  unfold asFmt
  rw [render_hit T ops fresh false hf hc hcache hn]

/-- `diagram.as_<fmt>` on a miss without fallback yields the *error image* (stage "render", the
"not in cache" error) converted through the whole chain — the internal rendering engine does not
run (no `fresh` event), nothing but this diagram's files was asked for. -/
theorem as_fmt_miss_is_error_image {B D : Type} (T : Table) (ops : Ops B D)
    (openf : Str → Option B) (fresh : Except Err D) (cfg : Cfg) (u f i : Str) (ch : List Conv)
    (hf : T.entry f = some i) (hc : T.chain i = some ch)
    (hcache : cfg.cache = true) (hallow : cfg.allowRender = false)
    (hn : NoneCached openf u ch) :
    asFmt T ops openf fresh cfg u f =
      (((ch.filterMap (usableFor u)).map (u ++ ·)).map .opened ++ [.errImage .render] ++ evsRun false ch,
       .ok (runChain ops false ch (ops.errImage .render .notInCache))) := by
  unfold asFmt
  rw [render_miss_noallow T ops fresh false hf hc hcache hallow hn]
  simp [hf, hc]

/-- A cache is configured exactly when `diagram_cache=` was truthy; "same as the model path"
re-uses the loader's own file handler. -/
theorem cache_spec_dispatch (s : Spec) :
    ((cacheOf s).isSome ↔ s ≠ .falsy) ∧ cacheOf .samePath = some .loaders := by
  cases s <;> simp [cacheOf]


/-! ## Composition with the file handlers' path handling (C14 path model)

`cache_handler.open(name)` does not read "the file called `name`": every handler first normalises the
name (`helpers.normalize_pure_path`, theorems of C14) and reads `<root>/<subdir>/<normalised parts>`.  A
uuid is an arbitrary string taken from the model file; `x/../_D.svg`, `./_D.svg` and `/_D.svg` all
normalise to `_D.svg`.  Since `fix: only look up plain file names in the diagram cache` `__load_cache`
skips a name that is not a single clean path component. -/

/-- **Every name handed to the cache handler is a plain file name**, and therefore every handler
(local directory, memory, zip, git, HTTP, GitLab artifacts), whatever its `subdir`, resolves it to exactly
`<normalised subdir>/<name>` — one component, the name itself. -/
theorem opened_names_resolve_to_themselves {B D : Type} (T : Table) (ops : Ops B D)
    (openf : Str → Option B) (fresh : Except Err D) (cfg : Cfg) (u : Str) (fmt : Option Str) (pretty : Bool) :
    ∀ n ∈ openedNames (render T ops openf fresh cfg u fmt pretty).1,
      plainName n = true ∧
      ∀ (h : Capella.Path.Handler) (sd : Str),
        Capella.Path.target h sd n = Capella.Path.normalize [] [sd] ++ [n] := by
  intro n hn
  obtain ⟨c, _, e, he, rfl⟩ := render_opened_sub T ops openf fresh cfg u fmt pretty n hn
  have hp := (usableFor_some he).2
  exact ⟨hp, fun h sd => target_of_plain h sd _ hp⟩

/-- **Distinct uuids never share a cache file at the handler level — or the lookup refuses.**  For the
generated extension table and *arbitrary strings* `u ≠ u'`: either one of the two names is not a plain
file name (then `__load_cache` never asks the handler for it, see `nonplain_never_opened`), or every
handler with every `subdir` resolves `u ++ e` and `u' ++ e'` to different paths. -/
theorem distinct_uuids_distinct_paths_or_refused (u u' e e' : Str) (hne : u ≠ u')
    (he : e ∈ table.exts) (he' : e' ∈ table.exts) :
    (plainName (u ++ e) = false ∨ plainName (u' ++ e') = false) ∨
    ∀ (h : Capella.Path.Handler) (sd : Str),
      Capella.Path.target h sd (u ++ e) ≠ Capella.Path.target h sd (u' ++ e') := by
  cases hp : plainName (u ++ e)
  · exact .inl (.inl rfl)
  · cases hp' : plainName (u' ++ e')
    · exact .inl (.inr rfl)
    · refine .inr (fun h sd heq => ?_)
      rw [target_of_plain h sd _ hp, target_of_plain h sd _ hp'] at heq
      have := List.append_cancel_left heq
      simp only [List.cons.injEq, and_true] at this
      exact hne (name_injective u u' e e' he he' this).1

/-- the refusal: a name that is not a plain file name is never passed to the handler, whatever is
cached, requested or configured -/
theorem nonplain_never_opened {B D : Type} (T : Table) (ops : Ops B D)
    (openf : Str → Option B) (fresh : Except Err D) (cfg : Cfg) (u : Str) (fmt : Option Str) (pretty : Bool)
    (n : Str) (hn : plainName n = false) :
    n ∉ openedNames (render T ops openf fresh cfg u fmt pretty).1 := by
  intro hm
  have := (opened_names_resolve_to_themselves T ops openf fresh cfg u fmt pretty n hm).1
  rw [hn] at this; cases this

/-- Before the repair every `uuid ++ ext` went to the handler as it was: the diagrams with the uuids
`_D` and `x/../_D` (different strings) were both served from the handler path `_D.svg`.  Kept so that a
reverted repair is recognisable by name. -/
theorem pinned_pathlike_uuid_reads_other_diagram :
    "_D".toList ≠ "x/../_D".toList ∧
    (probeOld (openOf ["x/../_D.svg".toList]) "x/../_D".toList
      [{ id := "svg".toList, ext := some ".svg".toList, fromCache := true, hasConvert := true, isFormat := true,
         isPretty := false, depends := none }] 0).1 = ["x/../_D.svg".toList] ∧
    Capella.Path.target .localDir [] "x/../_D.svg".toList = Capella.Path.target .localDir [] "_D.svg".toList := by
  decide

/-! ## Non-vacuity: concrete configurations of the generated table (free term interpretation) -/

private def dU : Str := "_d1".toList
private def oU : Str := "_other".toList
private def svgId : Str := "SVGFormat".toList
private def pngId : Str := "PNGFormat".toList

-- png requested, only d.svg (and files of another diagram and junk) present: the svg is taken
-- and converted forward with PNGFormat.convert; `_d1.png` is asked for first.
example :
    render table termOps
      (openOf [dU ++ ".svg".toList, oU ++ ".png".toList, oU ++ ".svg".toList, "junk".toList])
      (.ok .fresh) ⟨true, false⟩ dU (some "png".toList) false
    = ([.opened (dU ++ ".png".toList), .opened (dU ++ ".svg".toList), .fromCache svgId, .convert pngId],
       .ok (.convert pngId (.fromCache svgId (.file (dU ++ ".svg".toList))))) := by decide +kernel

private def present1 : List Str := [dU ++ ".svg".toList, oU ++ ".png".toList]

-- the hypotheses of `cache_hit_spec` are met, with k = 1
example : ∃ ch, table.chain pngId = some ch ∧ ∃ k c e b, k = 1 ∧
    Nearest (openOf present1) dU ch k c e b := by
  have h : (table.chain pngId).isSome = true := by decide +kernel
  obtain ⟨ch, hch⟩ := Option.isSome_iff_exists.mp h
  refine ⟨ch, hch, ?_⟩
  have hp : ((table.chain pngId).map fun ch =>
      (probe (openOf present1) dU ch 0).2.map (·.1))
      = some (some 1) := by decide +kernel
  rw [hch, Option.map_some] at hp
  cases hpr : probe (openOf present1) dU ch 0 with
  | mk names r =>
    cases r with
    | none => rw [hpr] at hp; simp at hp
    | some t =>
      obtain ⟨i, c, b⟩ := t
      obtain ⟨k, e, hi, hn, _⟩ := probe_hit ch 0 hpr
      rw [hpr] at hp; simp at hp
      exact ⟨k, c, e, b, by omega, hn⟩

-- miss: only another diagram's files are present → error without fallback, fresh render with it
example :
    (render table termOps (openOf [oU ++ ".svg".toList, oU ++ ".png".toList]) (.ok .fresh)
      ⟨true, false⟩ dU (some "svg".toList) false).2 = .error .notInCache := by decide +kernel
example :
    (render table termOps (openOf [oU ++ ".svg".toList, oU ++ ".png".toList]) (.ok .fresh)
      ⟨true, true⟩ dU (some "svg".toList) false).2
    = .ok (.convert svgId (.call "convert_svgdiagram".toList .fresh)) := by decide +kernel
example : table.exts = [".png".toList, ".svg".toList] := by decide +kernel

/-- plain and non-plain names -/
example : plainName "_yLAzgKNzEeyJNLcTD9ngpQ.svg".toList = true ∧ plainName "x/../_D.svg".toList = false ∧
    plainName "./_D.svg".toList = false ∧ plainName "/_D.svg".toList = false ∧ plainName "...svg".toList = true := by
  decide

/-- the repaired lookup: the diagram with the path-like uuid opens nothing and misses, although `_D.svg` is cached -/
example :
    (render table termOps (openOf ["_D.svg".toList]) (.ok .fresh) ⟨true, false⟩ "x/../_D".toList (some "svg".toList) false)
      = ([], .error .notInCache) := by
  decide +kernel

/-! ## Second layer: every entry point, faults, the in-memory render state, call sequences

`E : Env` is fixed for the life of a diagram object (table, converters that may raise, cache configured /
fallback flag, uuid); `q : Req` may differ from call to call (what the cache handler does for each name —
found / `FileNotFoundError` / another exception — and what `_create_diagram` would yield); `st : St` is the
in-memory render state (`_render`, `_error`). -/

/-- **Cache hit through `render`, with converters and a handler that may raise, from any state.** If position
`k` of the chain is the first cache-loadable converter whose name the handler does not answer with
`FileNotFoundError`, and it answers with bytes `b`, then `render` returns `from_cache(b)` converted forward —
or the exception of the first converter that raises (unless that is a `KeyError`, which the code takes for
"not cached"); the object's in-memory state is neither read nor changed. -/
theorem render_hit_any_state {B D : Type} (E : Env B D) (st : St D) (q : Req B D) (f i : Str) (ch : List Conv)
    (pretty pe : Bool) (hf : E.T.entry f = some i) (hch : E.T.chain i = some ch) (hc : E.cfg.cache = true)
    (k : Nat) (c : Conv) (e : Str) (b : B) (hn : Nearest (stopf q.openf) E.u ch k c e (.inl b))
    (hnk : ∀ x, (hitResult E.ops ch k c b).2 = .error x → x.isKey = false) :
    renderS E st q (some f) pretty pe =
      (st, (probedNames E.u ch k).map .opened ++ (hitResult E.ops ch k c b).1, (hitResult E.ops ch k c b).2) :=
  renderS_hit E st q pretty pe hf hch hc hn hnk

/-- **An `OSError` of the handler other than `FileNotFoundError` propagates** (a directory called
`<uuid>.svg`, `PermissionError`): `render` raises it after having asked only for this diagram's names up to
that one; nothing behind it is probed, no converter and not the internal renderer runs — even with the
fallback enabled. -/
theorem handler_error_propagates {B D : Type} (E : Env B D) (st : St D) (q : Req B D) (f i : Str) (ch : List Conv)
    (pretty pe : Bool) (hf : E.T.entry f = some i) (hch : E.T.chain i = some ch) (hc : E.cfg.cache = true)
    (k : Nat) (c : Conv) (e n : Str) (hn : Nearest (stopf q.openf) E.u ch k c e (.inr (n, .other))) :
    renderS E st q (some f) pretty pe =
      (st, (probedNames E.u ch k).map .opened, .error (.raised (.opened (E.u ++ e)) .other)) :=
  renderS_raises E st q pretty pe hf hch hc hn

/-- **All paths: no value of another diagram, no partially converted value.** Whatever the converters and the
handler do (raise anywhere), whatever was rendered before: if `render(fmt)` hands back a value at all, it is
either the *complete* forward conversion (`runLoad` of the fault-free interpretation: every converter in
front ran) of `from_cache` of the bytes found under this diagram's own name `u ++ e`, or — only without a
cache or with the fallback enabled — the complete conversion of the internal rendering. -/
theorem no_partial_no_foreign_value {B D : Type} (E : Env B D) (ops : Ops B D) (ha : Agrees E.ops ops)
    (st : St D) (q : Req B D) (f : Str) (pretty pe : Bool) (st' : St D) (tr : List Ev) (d : D)
    (h : renderS E st q (some f) pretty pe = (st', tr, .ok d)) :
    ∃ i ch, E.T.entry f = some i ∧ E.T.chain i = some ch ∧
      ((E.cfg.cache = true ∧ st' = st ∧ ∃ k c e b, ch[k]? = some c ∧ usableFor E.u c = some e ∧
          q.openf (E.u ++ e) = .found b ∧ d = runLoad ops (ch.take k) (ops.fromCache c.id b))
       ∨ ((E.cfg.cache = false ∨ E.cfg.allowRender = true) ∧
          ∃ d0, (freshSt E.ops st q.create pe).result = .ok d0 ∧ d = runChain ops pretty ch d0)) := by
  obtain ⟨i, ch, hf, hch, hcase⟩ := renderS_ok E st q f pretty pe h
  refine ⟨i, ch, hf, hch, ?_⟩
  rcases hcase with ⟨hc, hst, k, c, e, b, d0, hk, hu, ho, hfc, hrun⟩ | ⟨hfl, d0, hres, hrun⟩
  · refine .inl ⟨hc, hst, k, c, e, b, hk, hu, ho, ?_⟩
    have hd0 := ha.fromCache _ _ _ hfc
    have := (runLoadF_ok_complete ha (tr := (runLoadF E.ops (ch.take k) d0).1) (by rw [← hrun])).1
    rw [this, hd0]
  · refine .inr ⟨hfl, d0, hres, ?_⟩
    exact (runChainF_ok_complete ha (tr := (runChainF E.ops pretty ch d0).1) (by rw [← hrun])).1

/-- **The cache is consulted on every render of a file format, whatever happened before on this object.**
For every history `pre` of calls (any entry points, any cache contents, faults and renderer outcomes along the
way) from any initial state: when the lookup of the last call is decided by the cache (fallback off, or
`__load_cache` does not end in "not cached"), its output — trace and result — is the output of the same call
on a fresh object. (Induction over the list of calls.) -/
theorem cache_consulted_whatever_happened_before {B D : Type} (E : Env B D) (hc : E.cfg.cache = true)
    (pre : List (Req B D × Entry)) (st0 : St D) (q : Req B D) (f : Str) (pretty pe : Bool)
    (hd : Decided E q f) :
    run E st0 (pre ++ [(q, .render (some f) pretty pe)]) =
      run E st0 pre ++ run E .empty [(q, .render (some f) pretty pe)] ∧
    stateAfter E st0 (pre ++ [(q, .render (some f) pretty pe)]) = stateAfter E st0 pre := by
  induction pre generalizing st0 with
  | nil =>
    have h := renderS_state_irrelevant E st0 .empty q f pretty pe hc hd
    simp only [List.nil_append, run, stateAfter, step, liftOut]
    rw [h]
    exact ⟨rfl, rfl⟩
  | cons p rest ih =>
    obtain ⟨q0, en0⟩ := p
    simp only [List.cons_append, run, stateAfter]
    obtain ⟨h1, h2⟩ := ih (step E st0 q0 en0).1
    exact ⟨by rw [h1]; rfl, h2⟩

/-- `render` of a file format with a decided lookup never touches the in-memory state, and `render(None)` /
a fallback render never touch the cache result of later calls: the two memories are independent. -/
theorem render_fmt_keeps_state {B D : Type} (E : Env B D) (st : St D) (q : Req B D) (f : Str) (pretty pe : Bool)
    (hc : E.cfg.cache = true) (hd : Decided E q f) : (renderS E st q (some f) pretty pe).1 = st := by
  rw [renderS_state_irrelevant E st st q f pretty pe hc hd]

/-- **Miss with fallback = rendering without a cache, in every state**: the probes, then exactly what the same
object in the same state does when no cache is configured. -/
theorem fallback_equals_uncached_any_state {B D : Type} (E : Env B D) (st : St D) (q : Req B D) (f i : Str)
    (ch : List Conv) (pretty pe : Bool) (hf : E.T.entry f = some i) (hch : E.T.chain i = some ch)
    (hc : E.cfg.cache = true) (ha : E.cfg.allowRender = true) (hn : NoneCached (stopf q.openf) E.u ch) (a : Bool) :
    let un := renderS { E with cfg := ⟨false, a⟩ } st q (some f) pretty pe
    renderS E st q (some f) pretty pe =
      (un.1, ((ch.filterMap (usableFor E.u)).map (E.u ++ ·)).map .opened ++ un.2.1, un.2.2) := by
  simp only
  rw [renderS_miss_allow E st q pretty pe hf hch hc ha hn,
    renderS_nocache { E with cfg := ⟨false, a⟩ } st q pretty pe hf hch rfl]
  rfl

/-- **The other entry points on a hit**: whenever `render` hands back a value, `as_<fmt>` returns the same,
`__html__` wraps the one for `svg` in the figure, `__repr__` (drawing) appends the one for `termgraphics`, and
`save` writes the same value (if it is `str`/`bytes`) — same trace, same state. -/
theorem entry_points_agree_with_render {B D : Type} (E : Env B D) (st : St D) (q : Req B D) :
    (∀ f st' tr d, renderS E st q (some f) false true = (st', tr, .ok d) → asFmtS E st q f = (st', tr, .ok d)) ∧
    (∀ st' tr d, renderS E st q (some svgName) false true = (st', tr, .ok d) →
        htmlS E st q = (st', tr, .ok (.figure d))) ∧
    (∀ st' tr d, renderS E st q (some termgraphics) false true = (st', tr, .ok d) →
        reprS E st q true = (st', tr, .ok (.drawn d))) ∧
    (∀ f pretty pe st' tr d, renderS E st q (some f) pretty pe = (st', tr, .ok d) →
        saveS E st q true f pretty pe =
          if E.ops.writable d then (st', tr, .ok (.written none d)) else (st', tr, .error .typeError)) := by
  refine ⟨fun f _ _ _ h => asFmtS_ok E st q f h, fun _ _ _ h => htmlS_ok E st q h,
    fun _ _ _ h => reprS_ok E st q h, ?_⟩
  intro f pretty pe st' tr d h
  rw [saveS_given, h]

/-- **The other entry points on a miss without fallback**, in every state: `as_<fmt>` is the "render"-stage
error image of the not-in-cache error through the whole chain, `__repr__` falls back to the short form, `save`
raises "not in cache"; none of them runs the internal renderer (no `fresh` in the trace besides what the
chain conversion of the error image shows) and the state is unchanged. -/
theorem entry_points_on_miss {B D : Type} (E : Env B D) (st : St D) (q : Req B D) (f i : Str) (ch : List Conv)
    (hf : E.T.entry f = some i) (hch : E.T.chain i = some ch) (hc : E.cfg.cache = true)
    (ha : E.cfg.allowRender = false) (hn : NoneCached (stopf q.openf) E.u ch) :
    asFmtS E st q f =
      (st, ((ch.filterMap (usableFor E.u)).map (E.u ++ ·)).map .opened ++ [.errImage .render]
            ++ (runChainF E.ops false ch (E.ops.errImage .render (.base .notInCache))).1,
       (runChainF E.ops false ch (E.ops.errImage .render (.base .notInCache))).2) ∧
    (∀ pretty pe, saveS E st q true f pretty pe =
      (st, ((ch.filterMap (usableFor E.u)).map (E.u ++ ·)).map .opened, .error (.base .notInCache))) ∧
    (f = termgraphics → reprS E st q true =
      (st, ((ch.filterMap (usableFor E.u)).map (E.u ++ ·)).map .opened, .ok .short)) := by
  refine ⟨asFmtS_miss E st q hf hch hc ha hn, ?_, ?_⟩
  · intro pretty pe
    rw [saveS_given, renderS_miss_noallow E st q pretty pe hf hch hc ha hn]
  · intro hft; subst hft
    exact reprS_miss E st q hf hch hc ha hn

/-- **`_repr_mimebundle_` on a hit** (after fix `mimebundle|ancestor-not-used`): if at least one selected MIME
format can be served from the cache, the bundle consists of exactly those; each item is what `render`'s own
lookup returns for that format — `from_cache` of the bytes found under this diagram's own name `u ++ ext` of a
converter of that format's `depends` chain, converted forward through ALL converters in front of it; the
in-memory state is untouched (in particular nothing is rendered). -/
theorem mimebundle_hit {B D : Type} (E : Env B D) (hc : E.cfg.cache = true) (st : St D) (q : Req B D)
    (sel : Str → Bool) (draw : Bool) (tr : List Ev) (it : Str × D) (items : List (Str × D))
    (h : bundleCached E q (bundleFormats E sel) = (tr, .ok (it :: items))) :
    mimebundleS E st q sel draw = (st, tr, .ok (.bundle (it :: items))) ∧
    Ev.fresh ∉ tr ∧
    ∀ m d, (m, d) ∈ it :: items → ∃ c ch k cv e b d0, (m, c) ∈ bundleFormats E sel ∧ E.T.chain c.id = some ch ∧
      ch[k]? = some cv ∧ usableFor E.u cv = some e ∧ q.openf (E.u ++ e) = .found b ∧
      E.ops.fromCache cv.id b = .ok d0 ∧ (runLoadF E.ops (ch.take k) d0).2 = .ok d := by
  refine ⟨mimebundleS_cached E st q sel draw h, ?_, ?_⟩
  · have := bundleCached_no_fresh E q (bundleFormats E sel)
    rw [h] at this; exact this
  · intro m d hm
    obtain ⟨c, ch, tr0, hmc, hch, hl⟩ := bundleCached_items E q hc _ tr _ h m d hm
    obtain ⟨k, cv, e, b, d0, hk, hu, ho, hfc, hrun⟩ := loadCacheF_ok E.ops hl
    exact ⟨c, ch, k, cv, e, b, d0, hmc, hch, hk, hu, ho, hfc, hrun⟩

/-! ### `_repr_mimebundle_` on a miss: the fallback policy of `render` (fixed; was a known finding) -/

private def envT (u : Str) (cfg : Cfg) (fs : ConvFaults) : Env Str Term :=
  { T := table, ops := termOpsF fs, cfg := cfg, u := u, name := "N".toList, mimes := mimes }

/-- what the property asks of the MIME bundle: with a cache configured and the fallback off the internal
renderer never runs -/
def mimebundle_respects_fallback_full : Prop :=
  ∀ (u : Str) (present : List Str) (inc : Option (List Str)) (exc : List Str) (draw : Bool),
    Ev.fresh ∉ (mimebundleS (envT u ⟨true, false⟩ []) .empty ⟨openOfF present [], .ok .fresh⟩ (selOf inc exc) draw).2.1

/-- **general form** (every table, every interpretation of the converters incl. raising ones, every handler
incl. raising ones, every in-memory state, every selection): with a cache configured and the fallback off
`_repr_mimebundle_` never calls `__render_fresh` and leaves the state as it is. -/
theorem mimebundle_respects_fallback {B D : Type} (E : Env B D) (st : St D) (q : Req B D)
    (sel : Str → Bool) (draw : Bool) (hc : E.cfg.cache = true) (ha : E.cfg.allowRender = false) :
    (mimebundleS E st q sel draw).1 = st ∧ Ev.fresh ∉ (mimebundleS E st q sel draw).2.1 :=
  mimebundleS_no_fresh E st q sel draw hc ha

/-- the statement that failed before fix (signature `mimebundle|fresh-without-fallback`) now holds -/
theorem mimebundle_respects_fallback_full_holds : mimebundle_respects_fallback_full := by
  intro u present inc exc draw
  exact (mimebundleS_no_fresh (envT u ⟨true, false⟩ []) .empty _ (selOf inc exc) draw rfl rfl).2

/-- nothing selected: `None`, nothing touched -/
theorem mimebundle_respects_fallback_partial {B D : Type} (E : Env B D) (st : St D) (q : Req B D)
    (sel : Str → Bool) (draw : Bool) (hsel : bundleFormats E sel = []) :
    mimebundleS E st q sel draw = (st, [], .ok .bundleNone) := by
  unfold mimebundleS
  simp [hsel]

/-! ### non-vacuity of the second layer (generated table, free interpretation, injected faults) -/

private def svgF : Str := dU ++ ".svg".toList
private def pngF : Str := dU ++ ".png".toList
private def okReq (present : List Str) (bad : List (Str × ExcKind)) : Req Str Term :=
  ⟨openOfF present bad, .ok .fresh⟩

-- the seeded change C19-r4m2 as a history: render(None) fills the in-memory state, then render("svg") must
-- still serve the cached file, and a diagram that is not cached must still be refused
example :
    run (envT dU ⟨true, false⟩ []) .empty
      [(okReq [] [], .render none false true), (okReq [svgF] [], .render (some "svg".toList) false true),
       (okReq [] [], .render (some "svg".toList) false true), (okReq [] [], .asFmt "svg".toList)]
    = [([.fresh], .ok (.value .fresh)),
       ([.opened svgF, .fromCache svgId], .ok (.value (.fromCache svgId (.file svgF)))),
       ([.opened svgF], .error (.base .notInCache)),
       ([.opened svgF, .errImage .render, .call "convert_svgdiagram".toList, .convert svgId],
        .ok (.value (.convert svgId (.call "convert_svgdiagram".toList (.errImage .render .notInCache)))))] := by
  decide +kernel

-- PNG conversion raises (no cairosvg): png from a cached svg is an error, never the half-converted svg text
example :
    (renderS (envT dU ⟨true, true⟩ [("convert".toList, pngId, .other)]) .empty (okReq [svgF] [])
      (some "png".toList) false true).2
    = ([.opened pngF, .opened svgF, .fromCache svgId, .convert pngId], .error (.raised (.convert pngId) .other)) := by
  decide +kernel

-- a directory called `<uuid>.png`: the OSError propagates although `<uuid>.svg` is cached and fallback is on
example :
    (renderS (envT dU ⟨true, true⟩ []) .empty (okReq [svgF] [(pngF, .other)]) (some "png".toList) false true).2
    = ([.opened pngF], .error (.raised (.opened pngF) .other)) := by
  decide +kernel

-- a `KeyError` raised by the handler is taken for "not cached" (as coded)
example :
    (renderS (envT dU ⟨true, false⟩ []) .empty (okReq [svgF] [(pngF, .keyError)]) (some "png".toList) false true).2
    = ([.opened pngF], .error (.base .notInCache)) := by
  decide +kernel

-- save / __html__ / __repr__ / the MIME bundle served from the cache
example :
    run (envT dU ⟨true, false⟩ []) .empty
      [(okReq [svgF] [], .save false "svg".toList false true), (okReq [svgF] [], .html),
       (okReq [pngF] [], .repr true), (okReq [pngF] [], .mimebundle none [] false),
       (okReq [svgF] [], .save true "svgdiagram".toList false true)]
    = [([.opened svgF, .fromCache svgId], .ok (.written (some ("N (_d1).svg".toList)) (.fromCache svgId (.file svgF)))),
       ([.opened svgF, .fromCache svgId], .ok (.figure (.fromCache svgId (.file svgF)))),
       ([.opened pngF, .fromCache pngId, .convert "TerminalGraphicsFormat".toList],
        .ok (.repr (.drawn (.convert "TerminalGraphicsFormat".toList (.fromCache pngId (.file pngF)))))),
       ([.opened pngF, .fromCache pngId, .opened svgF],
        .ok (.bundle [("image/png".toList, .fromCache pngId (.file pngF))])),
       ([], .error (.base .notInCache))] := by
  decide +kernel

-- after fix `mimebundle|ancestor-not-used`: include={"image/png"}, only `<uuid>.svg` cached → the cached SVG
-- converted forward, nothing rendered; and with PNG conversion raising (no cairosvg) the default bundle still
-- shows the cached SVG (the failure is logged and that MIME type skipped)
example :
    (mimebundleS (envT dU ⟨true, true⟩ []) .empty (okReq [svgF] []) (selOf (some ["image/png".toList]) []) false).2
    = ([.opened pngF, .opened svgF, .fromCache svgId, .convert pngId],
       .ok (.bundle [("image/png".toList, .convert pngId (.fromCache svgId (.file svgF)))])) := by
  decide +kernel

example :
    (mimebundleS (envT dU ⟨true, true⟩ [("convert".toList, pngId, .other)]) .empty (okReq [svgF] []) (selOf none []) false).2
    = ([.opened pngF, .opened svgF, .fromCache svgId, .convert pngId, .opened svgF, .fromCache svgId],
       .ok (.bundle [("image/svg+xml".toList, .fromCache svgId (.file svgF))])) := by
  decide +kernel

-- after fix `mimebundle|fresh-without-fallback`: empty cache, fallback off → the "not in cache" error image in
-- every selected format, the renderer does not run, the state stays empty
example :
    mimebundleS (envT dU ⟨true, false⟩ []) .empty (okReq [] []) (selOf (some ["image/svg+xml".toList]) []) false
    = (.empty, [.opened svgF, .errImage .render, .call "convert_svgdiagram".toList, .convert svgId],
       .ok (.bundle [("image/svg+xml".toList,
         .convert svgId (.call "convert_svgdiagram".toList (.errImage .render .notInCache)))])) := by
  decide +kernel

-- the hypotheses of `cache_consulted_whatever_happened_before` are met (fallback off)
example : Decided (envT dU ⟨true, false⟩ []) (okReq [svgF] []) "svg".toList := .inl rfl

end Capella.Props.C19
