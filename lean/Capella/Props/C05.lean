import Capella.Lemmas.Links

/-!
# C05 — references written by the library resolve back and use Capella's link format

Property theorems only; the model is `Capella/Model/Links.lean` (+ `Model/Path.lean`,
`Model/Quote.lean`), helper lemmas are in `Capella/Lemmas/Links.lean`.

Vocabulary: a tree key ("fragment path") is a list of components `resource :: dir… :: file`;
`Clean l` = no component is empty, `.`, `..` or contains `/` (what `normalize_pure_path`
returns, see C14 `normalize_clean`); `Consistent l` = tree keys distinct and every indexed ID carried
by exactly one element (C04); `WFEl k e` = the ID put into the link is `[A-Za-z0-9_-]+` and the
element's type has no white space and no `#`.
-/
namespace Capella.Props.C05
open Capella.Path Capella.Quote Capella.Links

/-- The relative path computed by `relpath_pure(to, from)` leads from the directory of `from` back
to `to`: any depth, any number of `..` climbs, any component text. (`from` is a file, so it cannot
be a prefix of `to`; `to = from` is the same-fragment case which writes no path.) -/
theorem relpath_resolves (to frm : List Str) (hto : Clean to) (hfrom : Clean frm)
    (h : ¬ frm <+: to) : resolve frm.dropLast (relpath to frm) = to :=
  relpath_resolves' to frm hto hfrom h

/-- The same at the level of the text that is actually written: relative path → `str()` → UTF-8 →
`urllib.parse.quote` → (link) → `_unquote_ref` → `normalize_pure_path(…, base=from.parent)`
is the target's tree key — for paths with spaces, `%`, `#`, non-ASCII characters, any nesting.
The only excluded spelling is a path component literally called `platform:` (then `_unquote_ref`
could mistake the text for a `platform:/resource/` URI). -/
theorem link_path_names_target (to frm : List Str) (hto : Clean to) (hfrom : Clean frm)
    (h : ¬ frm <+: to) (hp : platformComp ∉ to) :
    loadRef frm (quote true (enc (relpathStr to frm))) = to :=
  loadRef_relpath to frm hto hfrom h hp

/-- The quoted path contains no space, no other white space and no `#` — so it can neither end the
link early nor break a space-separated list. -/
theorem quote_safe (bs : List UInt8) :
    ∀ c ∈ quote true bs, c ≠ ' ' ∧ c ≠ '#' ∧ isPySpace c = false := by
  intro c hc
  have h := okChar_plain true c (quote_chars true bs c hc)
  refine ⟨?_, h.1, h.2⟩
  rintro rfl
  exact absurd h.2 (by decide)

/-- Quoting a path text and reading it back the way the loader reads references gives the same
text, for every string that does not start with `platform:/resource/`. -/
theorem unquote_quote (s : Str) (h : platformPrefix.isPrefixOf s = false) :
    unquoteRef (quote true (enc s)) = s :=
  unquoteRef_quote true s h

/-- `create_link` succeeds exactly when the target carries an ID attribute that its file type
indexes (`id` in semantic files, `uid`/`xmi:id` in visual files). -/
theorem createLink_defined (fromF toF : Frag) (b : El) :
    (∃ s, createLink fromF toF b = .ok s) ↔ (linkId toF.kind b).isSome := by
  constructor
  · rintro ⟨s, h⟩
    obtain ⟨id, hid, _⟩ := createLink_cases h
    simp [hid]
  · intro h
    obtain ⟨id, hid⟩ := Option.isSome_iff_exists.mp h
    unfold createLink
    simp only [hid]
    split
    · exact ⟨_, rfl⟩
    · split
      · exact ⟨_, rfl⟩
      · split <;> exact ⟨_, rfl⟩

/-- Shape of the text `create_link` returns (default `include_target_type`): `#id` iff both
elements live in the same fragment; otherwise `path#id` when the source is a visual file or the
target has no type, and `type path#id` when the source is not visual and the target has a type;
`path` is the percent-quoted relative path. -/
theorem createLink_shape {fromF toF : Frag} {b : El} {s : Str}
    (h : createLink fromF toF b = .ok s) :
    ∃ id, linkId toF.kind b = some id ∧
      ((fromF.path = toF.path ∧ s = '#' :: id) ∨
       (fromF.path ≠ toF.path ∧
          (suffix (nameOf fromF.path) ∈ visualExts ∨ b.xtype = none ∨ b.xtype = some []) ∧
          s = linkPath fromF toF ++ '#' :: id) ∨
       (fromF.path ≠ toF.path ∧ suffix (nameOf fromF.path) ∉ visualExts ∧
          ∃ t, b.xtype = some t ∧ t ≠ [] ∧ s = t ++ ' ' :: linkPath fromF toF ++ '#' :: id)) := by
  obtain ⟨id, hid, hc⟩ := createLink_cases h
  refine ⟨id, hid, ?_⟩
  cases hc with
  | same hp => exact Or.inl ⟨hp, rfl⟩
  | untyped hp hv => exact Or.inr (Or.inl ⟨hp, hv, rfl⟩)
  | typed t hp hv hx hne => exact Or.inr (Or.inr ⟨hp, hv, t, hx, hne, rfl⟩)

/-- The returned text starts with `#` only in the same-fragment case. -/
theorem createLink_hash_iff_same {fromF toF : Frag} {b : El} {s : Str}
    (hwf : WFEl toF.kind b) (h : createLink fromF toF b = .ok s) :
    s.head? = some '#' ↔ fromF.path = toF.path := by
  obtain ⟨id, hid, hc⟩ := createLink_cases h
  have hq := (noSpHash_iff _).mp (linkPath_props fromF toF).1
  cases hc with
  | same hp => simp [hp]
  | untyped hp _ =>
    constructor
    · intro hh
      cases hl : linkPath fromF toF with
      | nil => exact absurd hl hq.1
      | cons c cs =>
        rw [hl] at hh
        simp at hh
        exact absurd (by rw [hl, hh]; simp) hq.2.2
    · intro e; exact absurd e hp
  | typed t hp _ hx hne =>
    constructor
    · intro hh
      have ht := (noSpHash_iff t).mp (hwf.2 t hx hne).1
      cases t with
      | nil => exact absurd rfl hne
      | cons c cs =>
        simp at hh
        exact absurd (by rw [hh]; simp) ht.2.2
    · intro e; exact absurd e hp

/-- Every text `create_link` returns matches Capella's link grammar (`CROSS_FRAGMENT_LINK`), and
its groups are: the target's ID; the target's type or nothing; the quoted relative path or
nothing. -/
theorem createLink_grammar {fromF toF : Frag} {b : El} {s : Str}
    (hwf : WFEl toF.kind b) (h : createLink fromF toF b = .ok s) :
    ∃ lk, parseLink s = some lk ∧ linkId toF.kind b = some lk.ref ∧
      (lk.xtype = none ∨ lk.xtype = b.xtype) ∧
      (lk.fragment = none ∨ lk.fragment = some (linkPath fromF toF)) := by
  obtain ⟨id, hid, hc⟩ := createLink_cases h
  obtain ⟨lk, h1, h2, h3, h4⟩ := hc.parse (hwf.1 id hid) (fun t a b => (hwf.2 t a b).1)
  exact ⟨lk, h1, by rw [h2]; exact hid, h3, h4⟩

/-- The fragment part of a cross-fragment link, read the way the loader reads file references,
is the tree key of the fragment that holds the target. (`follow_link` does not use it — see the
gap in design/C05.md — but what is written is right.) -/
theorem created_fragment_names_owner {fromF toF : Frag} {b : El} {s : Str}
    (hwf : WFEl toF.kind b) (h : createLink fromF toF b = .ok s)
    (hto : Clean toF.path) (hfrom : Clean fromF.path) (hne : ¬ fromF.path <+: toF.path)
    (hp : platformComp ∉ toF.path) :
    ∃ lk q, parseLink s = some lk ∧ lk.fragment = some q ∧ loadRef fromF.path q = toF.path := by
  obtain ⟨id, hid, hc⟩ := createLink_cases h
  have huu := hwf.1 id hid
  have hq := (linkPath_props fromF toF).1
  have hload := loadRef_relpath toF.path fromF.path hto hfrom hne hp
  cases hc with
  | same hpth => exact absurd (hpth ▸ List.prefix_refl _) hne
  | untyped _ _ => exact ⟨_, _, parseLink_untyped _ id hq huu, rfl, hload⟩
  | typed t _ _ hx hn =>
    exact ⟨_, _, parseLink_typed t _ id (hwf.2 t hx hn).1 hq huu, rfl, hload⟩

/-- **Following a created link returns exactly the target**, for any source fragment, any target
element of any loaded fragment, under ID uniqueness. -/
theorem follow_create {l : Loader} (hl : Consistent l) {fromF toF : Frag} {b : El}
    (hf : toF ∈ l.trees) (hb : b ∈ toF.elems) (hwf : WFEl toF.kind b) {s : Str}
    (h : createLink fromF toF b = .ok s) : followLink l s = .ok b :=
  followLink_created hl hf hb hwf h

/-- **A link text names one element.** In a consistent loader two targets that receive the same link text
(from whatever referrers, in whatever files) are the same element: no two distinct elements are ever confused by
what the library writes. -/
theorem created_link_identifies_target {l : Loader} (hl : Consistent l)
    {fromF toF fromF' toF' : Frag} {b b' : El}
    (hf : toF ∈ l.trees) (hb : b ∈ toF.elems) (hwf : WFEl toF.kind b)
    (hf' : toF' ∈ l.trees) (hb' : b' ∈ toF'.elems) (hwf' : WFEl toF'.kind b') {s : Str}
    (h : createLink fromF toF b = .ok s) (h' : createLink fromF' toF' b' = .ok s) : b = b' := by
  have h1 := follow_create hl hf hb hwf h
  have h2 := follow_create hl hf' hb' hwf' h'
  rw [h1] at h2
  exact Except.ok.inj h2

/-- `split_links` of the space-joined texts that `__set_links` writes returns those texts, in
order, for any number of targets and any mix of link forms. -/
theorem split_join {l : Loader} (hl : Consistent l) (fromF : Frag)
    (targets : List (Frag × El)) (ss : List Str)
    (hall : ∀ p ∈ targets, p.1 ∈ l.trees ∧ p.2 ∈ p.1.elems ∧ WFEl p.1.kind p.2)
    (h : setLinks fromF targets = .ok ss) :
    splitLinks (joinSpace ss) = .ok ss := by
  obtain ⟨ls, h1, h2, _⟩ := setLinks_spec hl fromF targets ss hall h
  rw [← h1]
  exact splitLinks_join ls h2

/-- A written list attribute reads back as exactly the targets, in order (with and without
`ignore_broken`). -/
theorem follow_links_create {l : Loader} (hl : Consistent l) (fromF : Frag)
    (targets : List (Frag × El)) (ss : List Str) (ign : Bool)
    (hall : ∀ p ∈ targets, p.1 ∈ l.trees ∧ p.2 ∈ p.1.elems ∧ WFEl p.1.kind p.2)
    (h : setLinks fromF targets = .ok ss) :
    followLinks l (joinSpace ss) ign = .ok (targets.map (·.2)) := by
  obtain ⟨ls, h1, h2, h3⟩ := setLinks_spec hl fromF targets ss hall h
  unfold followLinks
  rw [← h1, pyWords_joinSpace ls h2]
  have := h3 ign []
  simp only [List.append_nil, followWords] at this
  simpa using this

/-- **Editing a list attribute after a move.** Whatever stood in the attribute before — for example
`#id` links written while a member was still in the referrer's file — the text `insert` writes holds, at
every position, the link `create_link` gives for the fragment that holds that member NOW (`#id` iff it is
the referrer's own fragment, by `createLink_hash_iff_same`), one link per member of the new list, and the
attribute reads back as exactly the new list in order. -/
theorem insert_links_current {l : Loader} (hl : Consistent l) (fromF : Frag)
    (members : List (Frag × El)) (index : Nat) (value : Frag × El) (ss : List Str) (ign : Bool)
    (hall : ∀ p ∈ value :: members, p.1 ∈ l.trees ∧ p.2 ∈ p.1.elems ∧ WFEl p.1.kind p.2)
    (h : attrInsert fromF members index value = .ok ss) :
    let new := members.take index ++ value :: members.drop index
    (ss.length = new.length ∧ ∀ (k : Nat) (h1 : k < new.length) (h2 : k < ss.length),
        createLink fromF new[k].1 new[k].2 = .ok ss[k]) ∧
      followLinks l (joinSpace ss) ign =
        .ok ((members.take index ++ value :: members.drop index).map (·.2)) := by
  refine ⟨setLinks_pointwise fromF _ ss h, follow_links_create hl fromF _ ss ign ?_ h⟩
  intro p hp
  apply hall
  rcases List.mem_append.mp hp with hp | hp
  · exact List.mem_cons_of_mem _ (List.mem_of_mem_take hp)
  · rcases List.mem_cons.mp hp with rfl | hp
    · exact List.mem_cons_self
    · exact List.mem_cons_of_mem _ (List.mem_of_mem_drop hp)

/-- The same for the removal of a member: the remaining members' links are all created anew. -/
theorem delete_links_current {l : Loader} (hl : Consistent l) (fromF : Frag)
    (members : List (Frag × El)) (index : Nat) (ss : List Str) (ign : Bool)
    (hall : ∀ p ∈ members, p.1 ∈ l.trees ∧ p.2 ∈ p.1.elems ∧ WFEl p.1.kind p.2)
    (h : attrDelete fromF members index = .ok ss) :
    let new := members.eraseIdx index
    (ss.length = new.length ∧ ∀ (k : Nat) (h1 : k < new.length) (h2 : k < ss.length),
        createLink fromF new[k].1 new[k].2 = .ok ss[k]) ∧
      followLinks l (joinSpace ss) ign = .ok ((members.eraseIdx index).map (·.2)) :=
  ⟨setLinks_pointwise fromF _ ss h,
   follow_links_create hl fromF _ ss ign (fun p hp => hall p (List.mem_of_mem_eraseIdx hp)) h⟩

/-! ## Laws of the writer over histories of edits

`__set_links` is the only writer of a list attribute (`__set__`, `insert`, `delete` and the list branch of
`purge_references` all end in it) and it assigns the attribute once, after every link has been created. -/

/-- **A write is all-or-nothing.** `__set_links` fails exactly when `create_link` fails for some member (and
with the error of the first such member); since `obj._element.set` follows the loop, the attribute is then
untouched.  Conversely, when every member can be linked the write succeeds. -/
theorem setLinks_error_iff (fromF : Frag) (ts : List (Frag × El)) :
    (∃ e, setLinks fromF ts = .error e) ↔ ∃ p ∈ ts, ∃ e, createLink fromF p.1 p.2 = .error e := by
  induction ts with
  | nil => simp [setLinks]
  | cons p ps ih =>
    obtain ⟨toF, b⟩ := p
    simp only [setLinks, List.mem_cons, exists_eq_or_imp]
    cases hc : createLink fromF toF b with
    | error e => simp
    | ok s =>
      cases hs : setLinks fromF ps with
      | error e =>
        have := ih.mp ⟨e, hs⟩
        simp only [reduceCtorEq, exists_false, false_or]
        exact ⟨fun _ => this, fun _ => ⟨e, rfl⟩⟩
      | ok r =>
        simp only [reduceCtorEq, exists_false, false_or, false_iff]
        intro h
        obtain ⟨e, he⟩ := ih.mpr h
        rw [hs] at he
        cases he

/-- **The text of a member does not depend on its neighbours.** Writing a concatenation writes the
concatenation of the two texts. -/
theorem setLinks_append (fromF : Frag) (as bs : List (Frag × El)) (ra rb : List Str)
    (ha : setLinks fromF as = .ok ra) (hb : setLinks fromF bs = .ok rb) :
    setLinks fromF (as ++ bs) = .ok (ra ++ rb) := by
  induction as generalizing ra with
  | nil =>
    simp only [setLinks, Except.ok.injEq] at ha
    subst ha
    simpa using hb
  | cons p ps ih =>
    obtain ⟨toF, b⟩ := p
    simp only [List.cons_append, setLinks] at ha ⊢
    cases hc : createLink fromF toF b with
    | error e => rw [hc] at ha; cases ha
    | ok s =>
      rw [hc] at ha
      cases hs : setLinks fromF ps with
      | error e => rw [hs] at ha; cases ha
      | ok r =>
        rw [hs] at ha
        simp only [Except.ok.injEq] at ha
        subst ha
        simp only [ih r hs, List.cons_append]

/-- **`insert` then `delete` of the inserted member is a fresh write of the original list**: at whatever
index (Python clamps an index beyond the end to the end) and whatever stood in the attribute before, the
text after the two edits is what `__set_links` writes for the original members — no residue of the
inserted member, no reordering. -/
theorem insert_then_delete_restores (fromF : Frag) (members : List (Frag × El)) (index : Nat)
    (value : Frag × El) :
    attrDelete fromF (members.take index ++ value :: members.drop index) (min index members.length) =
      setLinks fromF members := by
  unfold attrDelete
  congr 1
  have hlen : (members.take index).length = min index members.length := List.length_take
  rw [List.eraseIdx_append_of_length_le (by omega), hlen, Nat.sub_self]
  simp

/-- **`delete` then `insert` of the same member at the same place is a fresh write of the original
list.** -/
theorem delete_then_insert_restores (fromF : Frag) (members : List (Frag × El)) (index : Nat)
    (h : index < members.length) :
    attrInsert fromF (members.eraseIdx index) index members[index] = setLinks fromF members := by
  unfold attrInsert
  congr 1
  induction members generalizing index with
  | nil => cases h
  | cons m ms ih =>
    cases index with
    | zero => simp
    | succ i =>
      have := ih i (by simpa using h)
      simpa using this

/-! ## Non-vacuity: a concrete loader with a nested, oddly named fragment and a visual file -/

def mainF : Frag := ⟨["\x00".toList, "My Model.capella".toList],
  [⟨[(.id, "a-1".toList)], some "org.x:Root".toList⟩, ⟨[(.id, "a-2".toList)], none⟩]⟩
def fragF : Frag := ⟨["\x00".toList, "frägments".toList, "100% LA#1.capellafragment".toList],
  [⟨[(.id, "b-1".toList)], some "org.x.la:LogicalArchitecture".toList⟩]⟩
def airdF : Frag := ⟨["\x00".toList, "My Model.aird".toList],
  [⟨[(.uid, "_u1".toList), (.xmiId, "_x1".toList)], some "viewpoint:DAnalysis".toList⟩,
   ⟨[(.xmiId, "_x2".toList), (.id, "(0.5,0.5)".toList)], some "notation:IdentityAnchor".toList⟩]⟩
def libF : Frag := ⟨["Lib 1".toList, "sub".toList, "Lib.capella".toList],
  [⟨[(.id, "c-1".toList)], some "org.x:Library".toList⟩]⟩
def ldr : Loader := ⟨[airdF, mainF, fragF, libF]⟩

example : createLink mainF fragF fragF.elems[0] =
    .ok "org.x.la:LogicalArchitecture fr%C3%A4gments/100%25%20LA%231.capellafragment#b-1".toList := by
  decide +kernel
example : createLink fragF mainF mainF.elems[0] =
    .ok "org.x:Root ../My%20Model.capella#a-1".toList := by decide +kernel
example : createLink fragF libF libF.elems[0] =
    .ok "org.x:Library ../../Lib%201/sub/Lib.capella#c-1".toList := by decide +kernel
example : createLink airdF fragF fragF.elems[0] =
    .ok "fr%C3%A4gments/100%25%20LA%231.capellafragment#b-1".toList := by decide +kernel
example : createLink mainF mainF mainF.elems[1] = .ok "#a-2".toList := by decide +kernel
-- a notation anchor carries `xmi:id` and a non-ID `id`; the indexed one is used
example : createLink mainF airdF airdF.elems[1] =
    .ok "notation:IdentityAnchor My%20Model.aird#_x2".toList := by decide +kernel
example : followLink ldr "org.x:Root ../My%20Model.capella#a-1".toList = .ok mainF.elems[0] := by
  decide +kernel
example : followLink ldr "org.x:Wrong ../My%20Model.capella#a-1".toList = .error .typeError := by
  decide +kernel
example : loadRef fragF.path "../../Lib%201/sub/Lib.capella".toList = libF.path := by decide +kernel
example : followLinks ldr
    "#a-2 org.x.la:LogicalArchitecture fr%C3%A4gments/100%25%20LA%231.capellafragment#b-1 #nope".toList
    true = .ok [mainF.elems[1], fragF.elems[0]] := by decide +kernel
-- a history: `a-1` was referenced as `#a-1` from `a-2` while both were in the main file; it now lives in the
-- fragment (`fragF2`); appending `c-1` writes the cross-file form for `a-1`, not the stale `#a-1`
def fragF2 : Frag := ⟨fragF.path, fragF.elems ++ [mainF.elems[0]]⟩
example : attrInsert mainF [(fragF2, mainF.elems[0])] 1 (libF, libF.elems[0]) =
    .ok ["org.x:Root fr%C3%A4gments/100%25%20LA%231.capellafragment#a-1".toList,
         "org.x:Library ../Lib%201/sub/Lib.capella#c-1".toList] := by decide +kernel
example : attrDelete fragF2 [(libF, libF.elems[0]), (fragF2, mainF.elems[0])] 0 = .ok ["#a-1".toList] := by
  decide +kernel
-- the laws over histories on this loader: a failing member (an element without any indexed id) fails the whole
-- write; insert-then-delete and delete-then-insert give the text of a fresh write
example : ∃ e, setLinks mainF [(fragF, fragF.elems[0]), (mainF, ⟨[], none⟩)] = .error e :=
  ⟨.valueError, by decide +kernel⟩
example : attrDelete mainF ([(fragF, fragF.elems[0])].take 5 ++ (libF, libF.elems[0]) :: [(fragF, fragF.elems[0])].drop 5)
    (min 5 1) = .ok ["org.x.la:LogicalArchitecture fr%C3%A4gments/100%25%20LA%231.capellafragment#b-1".toList] := by
  decide +kernel
example : Clean fragF.path ∧ ¬ mainF.path <+: fragF.path := by
  refine ⟨?_, by decide⟩
  intro c hc
  simp only [fragF, List.mem_cons, List.not_mem_nil, or_false] at hc
  rcases hc with rfl | rfl | rfl <;> exact ⟨by decide, by decide, by decide, by decide⟩

end Capella.Props.C05
