import Capella.Lemmas.Frag

/-!
# C06 — a fragmented model behaves exactly like its single-file equivalent

Property theorems only; the model is `Capella/Model/Frag.lean`, helper lemmas are in
`Capella/Lemmas/Frag.lean`.

`t` is the monolithic tree, `cut` an arbitrary set of keys (nested cuts allowed, the root stays),
`split cut t` the store Capella's fragmentation writes (main file + one file per cut element, `href`
placeholders, tag-typed fragment roots), `mono t = split (fun _ => false) t` the single file.
`KeysNodup t`: element keys are unique (ids are unique — C04). The navigation functions are the
loader's code as modelled (id lookup over all files, placeholder following, upward navigation through
the placeholder that links to a file root).
-/
namespace Capella.Props.C06
open Capella.Frag

/-- Fragmentation neither loses nor duplicates an element: the elements of all files together are
exactly the elements of the tree. -/
theorem split_preserves_elements (cut : Key → Bool) (t : Tree) :
    ((split cut t).keys).Perm (keysT t) :=
  split_keys_perm cut t

/-- Every id of the tree resolves in the fragmented store, to an element with the same key and
type whose children are the (split) children of the monolithic node. -/
theorem resolve_refines (cut : Key → Bool) (t : Tree) (h : KeysNodup t) (c : Tree) (hc : c ∈ subT t) :
    ∃ n, resolve (split cut t) c.key = some n ∧ n.kids = (splitL cut c.kids).1 ∧
      (obsF n).2 = (c.key, c.xt) :=
  resolve_split cut t h c hc

/-- `iterchildren_xt` answers the same on every layout: the node's children in order, filtered by
type, fragment roots included in place of their placeholders. -/
theorem children_refine (cut : Key → Bool) (t : Tree) (h : KeysNodup t) (xts : List (Option Str))
    (c : Tree) (hc : c ∈ subT t) :
    childrenXt (split cut t) xts c.key = childrenXt (mono t) xts c.key ∧
    childrenXt (split cut t) xts c.key =
      some ((c.kids.filter (fun d => inSet xts d.xt)).map (fun d => (d.key, d.xt))) := by
  have h1 := childrenXt_split cut t h xts c hc
  have h2 := childrenXt_split (fun _ => false) t h xts c hc
  exact ⟨by rw [h1]; exact h2.symm, h1⟩

/-- `iterdescendants` (with any tag filter) answers the same on every layout: all descendants in
document order, each fragment root in place of its placeholder and observed under the placeholder's
tag. Holds for every fuel above `fuelT t`. -/
theorem descendants_refine (cut : Key → Bool) (t : Tree) (h : KeysNodup t) (tags : List Str)
    (c : Tree) (hc : c ∈ subT t) (f : Nat) (hf : fuelT t ≤ f) :
    descendants (split cut t) f tags c.key = descendants (mono t) f tags c.key ∧
    descendants (split cut t) f tags c.key = some ((mdescL c.kids).filter (fun o => inSet tags o.1)) := by
  have h1 := descendants_split cut t h tags c hc f hf
  have h2 := descendants_split (fun _ => false) t h tags c hc f hf
  exact ⟨by rw [h1]; exact h2.symm, h1⟩

/-- `iterdescendants_xt` (filter by `xsi:type`) likewise. -/
theorem descendantsXt_refine (cut : Key → Bool) (t : Tree) (h : KeysNodup t) (xts : List (Option Str))
    (c : Tree) (hc : c ∈ subT t) (f : Nat) (hf : fuelT t ≤ f) :
    descendantsXt (split cut t) f xts c.key = descendantsXt (mono t) f xts c.key := by
  unfold descendantsXt
  rw [(descendants_refine cut t h [] c hc f hf).1]

/-- One upward step (`getparent()`, or across a fragment boundary the parent of the placeholder)
is exactly one containment edge of the monolithic tree — in particular a fragment root is not
orphaned. -/
theorem parent_is_edge (cut : Key → Bool) (t : Tree) (h : KeysNodup t) (k p : Key) :
    fparent (split cut t) k = some p ↔ (p, k) ∈ edgesT t :=
  fparent_split_iff cut t h k p

/-- The parent of every element is the same on every layout. -/
theorem parent_refine (cut : Key → Bool) (t : Tree) (h : KeysNodup t) (k : Key) :
    fparent (split cut t) k = fparent (mono t) k :=
  fparent_split_eq cut _ t h k

/-- `iterancestors` (unfiltered, as `.parent`, `.layer` and `search(below=…)` use it) is the same on
every layout, for every fuel. -/
theorem ancestors_refine (cut : Key → Bool) (t : Tree) (h : KeysNodup t) (f : Nat) (k : Key) :
    ancestors (split cut t) f k = ancestors (mono t) f k :=
  ancestors_split_eq cut _ t h f k

/-- `search(*xtypes, below=b)` finds the same elements on every layout (as a multiset: the result
order follows the files). -/
theorem searchBelow_refine (cut : Key → Bool) (t : Tree) (h : KeysNodup t) (f : Nat)
    (xts : List (Option Str)) (b : Key) :
    (searchBelow (split cut t) f xts b).Perm (searchBelow (mono t) f xts b) :=
  searchBelow_split_perm cut _ t h f xts b

/-- `find_fragment` names the file that owns the element: the file rooted at its nearest cut
ancestor-or-self, the main file if there is none. Since a save writes the files of the store, every
element is written into the fragment that owns it. -/
theorem findFragment_owner (cut : Key → Bool) (t : Tree) (h : KeysNodup t) (k o : Key)
    (ho : (k, o) ∈ owners cut t) : fileOf (split cut t) k = some o :=
  fileOf_split cut t h k o ho

/-- every element has exactly one owner entry -/
theorem owners_cover (cut : Key → Bool) (t : Tree) : (owners cut t).map Prod.fst = keysT t :=
  owners_fst cut t

/-! ## What does *not* hold: reading children without following placeholders

`LinkAccessor.__find_refs` and `SpecificationAccessor.__get__` read `element.iterchildren(tag)`
directly. (Known finding `api|relation-differs|LinkAccessor|…`, `…|SpecificationAccessor|…`.) -/

/-- the full statement for raw child reads -/
def rawChildren_full : Prop :=
  ∀ (cut : Key → Bool) (t : Tree), KeysNodup t → ∀ c ∈ subT t,
    rawChildren (split cut t) c.key = rawChildren (mono t) c.key

def witnessTree : Tree :=
  .node 0 "root".toList (some "P".toList)
    [.node 1 "ownedLinks".toList (some "Link".toList) [], .node 2 "ownedX".toList (some "X".toList) []]

theorem rawChildren_full_fails : ¬ rawChildren_full := by
  intro h
  have := h (fun k => k == 1) witnessTree (by unfold KeysNodup; decide) witnessTree
    (by rw [subT_self]; exact List.mem_cons_self)
  revert this
  decide

/-- Raw child reads agree exactly when none of the node's own children is a fragment root. -/
theorem rawChildren_partial (cut : Key → Bool) (t : Tree) (h : KeysNodup t) (c : Tree) (hc : c ∈ subT t)
    (hno : ∀ d ∈ c.kids, cut d.key = false) :
    rawChildren (split cut t) c.key = rawChildren (mono t) c.key := by
  rw [rawChildren_split cut t h c hc, mono, rawChildren_split (fun _ => false) t h c hc]
  congr 2
  apply List.filter_congr
  intro d hd
  simp [hno d hd]

/-- the general form: a raw read sees exactly the children that were not cut -/
theorem rawChildren_sees_uncut (cut : Key → Bool) (t : Tree) (h : KeysNodup t) (c : Tree) (hc : c ∈ subT t) :
    rawChildren (split cut t) c.key = some ((c.kids.filter (fun d => !cut d.key)).map Tree.key) :=
  rawChildren_split cut t h c hc

/-! ## Tag-filtered `iterancestors` (a loader-level form the object API does not use)

A fragment root's own tag is the class name, not the containment tag, so a tag filter that would
match the element in the monolithic file does not match it as a fragment root. -/

def ancestorsTagged_full : Prop :=
  ∀ (cut : Key → Bool) (t : Tree), KeysNodup t → ∀ (f : Nat) (tags : List Str) (k : Key),
    ancestorsTagged (split cut t) f tags k = ancestorsTagged (mono t) f tags k

def witnessTree2 : Tree :=
  .node 0 "root".toList (some "P".toList)
    [.node 1 "ownedArchitectures".toList (some "la:LogicalArchitecture".toList)
      [.node 2 "ownedFunctionPkg".toList (some "la:LogicalFunctionPkg".toList) []]]

theorem ancestorsTagged_full_fails : ¬ ancestorsTagged_full := by
  intro h
  have := h (fun k => k == 1) witnessTree2 (by unfold KeysNodup; decide) 5 ["ownedArchitectures".toList] 2
  revert this
  decide

/-! ## Non-vacuity -/

def t0 : Tree := .node 0 "root".toList (some "P".toList)
  [.node 1 "a".toList (some "A".toList)
     [.node 2 "b".toList (some "B".toList) [.node 3 "c".toList none []],
      .node 4 "b".toList (some "B".toList) []],
   .node 5 "a".toList (some "A".toList) []]
def cut0 : Key → Bool := fun k => k == 1 || k == 2

example : KeysNodup t0 := by unfold KeysNodup; decide
example : (split cut0 t0).frags.length = 2 := by decide
example : ancestors (split cut0 t0) 10 3 = [2, 1, 0] := by decide
example : (descendants (split cut0 t0) 20 [] 0).map (·.map (·.2.1)) = some [1, 2, 3, 4, 5] := by decide
example : childrenXt (split cut0 t0) [some "B".toList] 1 = some [(2, some "B".toList), (4, some "B".toList)] := by
  decide
example : fileOf (split cut0 t0) 3 = some 2 ∧ fileOf (split cut0 t0) 4 = some 1 ∧ fileOf (split cut0 t0) 5 = some 0 := by
  decide
example : (3, 2) ∈ owners cut0 t0 := by decide
example : fuelT t0 = 17 := by decide

end Capella.Props.C06
