/-! # C06 — placeholder while the model is being written (no theorems yet) -/
namespace Capella.Props.C06
end Capella.Props.C06
