import Capella.Lemmas.DeclYaml
import Capella.Lemmas.DeclSync
import Capella.Lemmas.DeclSync2
import Capella.Lemmas.DeclPep440
import Capella.Lemmas.DeclTyped
import Capella.Gen.Pods

/-!
# C13 — declarative sync is idempotent; instruction documents survive dump and load

Property theorems only. Models: `Capella/Model/Decl.lean` (the sync operator as part of the machine of
`decl.apply`) and `Capella/Model/DeclYaml.lean` (tag codec, metadata layout, metadata matcher).
-/
namespace Capella.Props.C13
open Capella.DeclYaml

/-- **The marker layer round-trips**: constructing (`YDMLoader`) what was represented (`YDMDumper`) gives
the value back, for every nesting of promises, UUID references, find directives, new-object markers,
dicts and lists — provided UUID references hold valid UUID strings and new-object markers carry a
non-empty string type hint and no `_type` keyword. -/
theorem tags_roundtrip (v : DVal) (h : WF v) : construct (represent v) = .ok v :=
  construct_represent v h

/-- **Instruction streams with metadata survive dump and load**: `load_with_metadata` applied to the
documents `dump` writes returns the metadata block and the instruction list unchanged (one document
when there is no metadata, two otherwise). -/
theorem stream_roundtrip (instrs : List DVal) (md : List (Str × DVal)) (hi : WFlist instrs) (hm : WFkvs md) :
    loadWithMetadata (dumpDocs instrs md) = .ok (md, instrs) :=
  load_dump instrs md hi hm

/-- **The version matcher is exact**: `_is_pep440` accepts a string iff it is
`[N!]N(.N)*[(a|b|rc)N][.postN][.devN]` with every `N` a decimal number without leading zeros
(no local versions, no separators other than `.`, no implicit numbers). -/
theorem pep440_exact (str : Str) : isPep440 str = true ↔ ∃ v : Ver, v.WF ∧ v.render = str :=
  ⟨isPep440_sound str, fun ⟨v, hv, hs⟩ => hs ▸ isPep440_complete v hv⟩

/-- `_verify_metadata` accepts exactly when a metadata block is present, names a well-formed writer
version that is not newer than the running one, and URL, revision and entry point equal the model's. -/
theorem verify_ok_iff (newEnough : Bool) (info : Info) (m : Meta) :
    verifyMetadata newEnough info m = .ok () ↔
      m.present = true ∧ m.writtenBy ≠ [] ∧ isPep440 m.writtenBy = true ∧ newEnough = true ∧
      m.url = info.url ∧ m.revision = info.revHash ∧ m.entrypoint = info.entrypoint := by
  unfold verifyMetadata
  cases hp : m.present <;> cases hw : m.writtenBy <;> cases h4 : isPep440 m.writtenBy <;> cases newEnough <;>
    by_cases hu : m.url = info.url <;> by_cases hr : m.revision = info.revHash <;>
    by_cases he : m.entrypoint = info.entrypoint <;> simp_all

/-! ## sync -/

open Capella.Decl in
/-- **A second run over a settled document changes nothing and creates nothing**: if every sync entry of
every instruction (recursively through nested `sync`) finds exactly one object in its list and that
object already carries the entry's `set` values, then `apply` returns the very same graph — whatever the
promise ids, type hints, nesting depth and number of instructions. -/
theorem settled_run_changes_nothing {mm : MM} {g : Graph}
    {doc : List Instr} {g' : Graph} {ps' : Promises} (hdoc : ∀ i ∈ doc, SettledInstr g i)
    (h : apply mm g doc = .ok (g', ps')) : g' = g :=
  settled_apply hdoc h

open Capella.Decl in
/-- **… and the second run does not raise**: over a settled document in which no promise id is declared
twice, `apply` returns — with the very same graph. (A settled state can only ever meet "promise_id defined
twice", and that needs an id declared twice; such a document fails on the first run as well.) Together
with `settled_run_changes_nothing`: the second run finds everything, creates nothing, changes nothing,
raises nothing. -/
theorem settled_second_run_succeeds {mm : MM} {g : Graph} {doc : List Instr}
    (hdoc : ∀ i ∈ doc, SettledInstr g i) (hpid : ∀ q, sumBy (Instr.pidN (indS q)) doc ≤ 1) :
    ∃ ps', apply mm g doc = .ok (g, ps') :=
  settled_apply_ok hdoc hpid

open Capella.Decl in
/-- **The first run settles an entry it creates** — exactly when no `set` key overrides a `find` key: if
nothing in the list matched the find, the object created from `find | set` is afterwards the one and
only match, provided the last value assigned to every find key is the find value (`KeysKept`). This is
where the hypothesis "find keys disjoint from set keys" is forced. -/
theorem created_entry_is_found (g : Graph) (par : Id) (attr : Capella.Decl.Str) (nid : Id) (cls : Capella.Decl.Str)
    (rs rk : List (Capella.Decl.Str × RVal)) (ty : Option Capella.Decl.Str)
    (hfresh : g.clsOf nid = none) (hnm : nid ∉ g.members par attr) (hcls : ∀ t, ty = some t → cls = t)
    (hnone : g.findAmong (g.members par attr) ty rk = .ok none) (hk : KeysKept rk rs) :
    (g.create par attr nid cls rs).findAmong ((g.create par attr nid cls rs).members par attr) ty rk
      = .ok (some nid) :=
  created_is_found g par attr nid cls rs rk ty hfresh hnm hcls hnone hk

open Capella.Decl in
/-- and the values the entry sets are then present: an attribute holds the last value assigned to it -/
theorem created_entry_has_set_values (g : Graph) (par : Id) (attr : Capella.Decl.Str) (nid : Id)
    (cls : Capella.Decl.Str) (rs : List (Capella.Decl.Str × RVal)) (k : Capella.Decl.Str) (v : RVal)
    (h : rs.reverse.lookup k = some v) : (g.create par attr nid cls rs).getScal nid k = some v := by
  rw [create_getScal_new, h]

section
open Capella.Decl

def ds (x : String) : Capella.Decl.Str := x.toList

/-- sync-only: no create/extend/set/delete on instruction level (entries may carry anything) -/
def SyncOnly (doc : List Instr) : Prop :=
  ∀ i ∈ doc, i.create = [] ∧ i.ext = [] ∧ i.set = [] ∧ i.del = []

/-- Idempotence for *all* sync-only documents: a second application returns the graph the first one
left. **False** (`sync_idempotent_full_fails`): a `set` key may override a `find` key. -/
def SyncIdempotent_full : Prop :=
  ∀ (mm : MM) (g : Graph) (doc : List Instr) (g1 g2 : Graph) (ps1 ps2 : Promises),
    SyncOnly doc → apply mm g doc = .ok (g1, ps1) → apply mm g1 doc = .ok (g2, ps2) → g2 = g1

/-- `find: {name: A}`, `set: {name: B}` below object 1 -/
def overrideDoc : List Instr := [
  { parent := .atom (.uuid 1),
    sync := [(ds "classes", [.mk 10 11 none [(ds "name", .str (ds "A"))] none
      [(ds "name", .scalar (.atom (.str (ds "B"))))] [] []])] }]

def g0 : Graph := { objs := [(1, ds "DataPkg")] }

def objCount (r : Except Err (Graph × Promises)) : Option Nat :=
  match r with | .ok r => some r.1.objs.length | .error _ => none

/-- first run: 2 objects; second run on its result: 3 -/
theorem override_counts :
    objCount (apply (MM.free []) g0 overrideDoc) = some 2 ∧
    objCount ((apply (MM.free []) g0 overrideDoc).bind fun r => apply (MM.free []) r.1 overrideDoc) = some 3 := by
  decide

/-- The statement without the hypothesis is refuted by the model (and, replayed on every run, by the
implementation: known finding `sync-twice|creates-again|set-overrides-find-key`). -/
theorem sync_idempotent_full_fails : ¬ SyncIdempotent_full := by
  intro h
  have hc := override_counts
  cases h1 : apply (MM.free []) g0 overrideDoc with
  | error e => simp [h1, objCount] at hc
  | ok r1 =>
    obtain ⟨g1, ps1⟩ := r1
    simp only [h1, Except.bind] at hc
    cases h2 : apply (MM.free []) g1 overrideDoc with
    | error e => simp [h2, objCount] at hc
    | ok r2 =>
      obtain ⟨g2, ps2⟩ := r2
      have := h (MM.free []) g0 overrideDoc g1 g2 ps1 ps2 (by intro i hi; simp [overrideDoc] at hi; subst hi; simp) h1 h2
      simp [h2, objCount] at hc
      rw [this] at hc
      omega

/-- a settled state: object 5 named `A` is in `classes` of 1 and already has `description = d` -/
def gSettled : Graph :=
  { objs := [(1, ds "DataPkg"), (5, ds "Class")],
    scal := [((5, ds "name"), .str (ds "A")), ((5, ds "description"), .str (ds "d"))],
    edges := [(1, ds "classes", 5)] }

def settledDoc : List Instr := [
  { parent := .atom (.uuid 1),
    sync := [(ds "classes", [.mk 10 11 (some (ds "Class")) [(ds "name", .str (ds "A"))] (some (ds "p"))
      [(ds "description", .scalar (.atom (.str (ds "d"))))] [] []])] }]

example : ∀ i ∈ settledDoc, SettledInstr gSettled i := by
  intro i hi
  simp only [settledDoc, List.mem_cons, List.mem_nil_iff, or_false] at hi
  subst hi
  refine ⟨1, Or.inl ⟨rfl, by decide⟩, rfl, rfl, rfl, rfl, ?_⟩
  refine ⟨⟨⟨rfl, trivial, 5, [(ds "name", .str (ds "A"))], by rfl, ⟨by rfl, trivial⟩, trivial⟩, trivial⟩, trivial⟩

example : (match apply (MM.free []) gSettled settledDoc with | .ok r => some (decide (r.1 = gSettled), r.2) | .error _ => none)
    = some (true, [(ds "p", 5)]) := by decide

/-- the promise ids of `settledDoc` are distinct (hypothesis of `settled_second_run_succeeds`) -/
example : ∀ q, sumBy (Instr.pidN (indS q)) settledDoc ≤ 1 := by
  intro q
  by_cases h : ds "p" = q <;> simp [settledDoc, sumBy, Instr.pidN, kidsPidN, setPidN, syncPidN, sosPidN, SyncObj.pidN, SetVal.pidN, optN, indS, h]

end


/-! ## typed find keys (`Model/DeclTyped.lean`, built on the C07 descriptor model) -/

section typed
open Capella.Pods Capella.DeclTyped

/-- **A find value of the attribute's own type that assignment leaves unchanged is found again** — for
every descriptor kind, every element and every such value (`keyOk`: any XML-legal string; HTML that
`repair_html` keeps; `True`/`False`; any int; any float but `nan`/`-inf` and any int a float holds exactly;
null or a whole-millisecond aware timestamp; the name of any enum member, the default one included):
assigning it and reading the attribute back gives a value that Python's `==` equates with the YAML value,
so the second run of `find: {attr: v}` finds the object the first run created. -/
theorem typed_key_found (P : Params) (C : Cmp P) (hP : P.Lawful) (hC : C.Lawful) (d : Desc) (hd : d.wf = true)
    (a : Attrs) (hw : d.writable = true ∨ a.has d.attr = false) (v : PyVal P) (hk : keyOk P C d v = true) :
    findsOwn P C d a v = true ∧ syncTwice P C d a v = .found :=
  ⟨findsOwn_of_keyOk hP hC d hd a hw v hk, syncTwice_of_keyOk hP hC d hd a hw v hk⟩

/-- … for every POD slot of every registered model class (the generated table of C07) -/
theorem typed_key_found_table (P : Params) (C : Cmp P) (hP : P.Lawful) (hC : C.Lawful) :
    ∀ r ∈ Capella.Gen.Pods.podTable, ∀ (a : Attrs) (v : PyVal P),
      (r.desc.writable = true ∨ a.has r.desc.attr = false) → keyOk P C r.desc v = true →
      findsOwn P C r.desc a v = true :=
  fun r hr a v hw hk =>
    findsOwn_of_keyOk hP hC r.desc (Row.desc_wf r (Capella.Gen.Pods.podTable_wf r hr)) a hw v hk

/-- **Strings**: every XML-legal string is found again (no escaping, no trimming). -/
theorem string_key_found (P : Params) (C : Cmp P) (hP : P.Lawful) (hC : C.Lawful) (attr : Pods.Str) (wr : Bool)
    (a : Attrs) (hw : wr = true ∨ a.has attr = false) (s : Pods.Str) (hs : xmlOk s = true) :
    findsOwn P C ⟨.string, attr, wr⟩ a (.str s) = true :=
  findsOwn_of_keyOk hP hC _ rfl a hw _ (by simp [keyOk, valid, hs])

/-- **Booleans**: `True` and `False` (the default, stored as an absent attribute) are found again. -/
theorem bool_key_found (P : Params) (C : Cmp P) (hP : P.Lawful) (hC : C.Lawful) (attr : Pods.Str)
    (a : Attrs) (b : Bool) : findsOwn P C ⟨.bool, attr, true⟩ a (.bool b) = true :=
  findsOwn_of_keyOk hP hC _ rfl a (Or.inl rfl) _ (by simp [keyOk, valid])

/-- **Integers**: every int — 0 (absent attribute), negative, arbitrarily large — is found again. -/
theorem int_key_found (P : Params) (C : Cmp P) (hP : P.Lawful) (hC : C.Lawful) (attr : Pods.Str) (wr : Bool)
    (a : Attrs) (hw : wr = true ∨ a.has attr = false) (i : Int) :
    findsOwn P C ⟨.int, attr, wr⟩ a (.int i) = true :=
  findsOwn_of_keyOk hP hC _ rfl a hw _ (by simp [keyOk, valid])

/-- **Floats**: every finite float (`0.0` and `-0.0` included: both are stored as an absent attribute and
`0.0 == -0.0`) and `inf` (stored as `*`) is found again. -/
theorem float_key_found (P : Params) (C : Cmp P) (hP : P.Lawful) (hC : C.Lawful) (attr : Pods.Str) (wr : Bool)
    (a : Attrs) (hw : wr = true ∨ a.has attr = false) (f : FloatV P.F) (hf : f = .inf ∨ ∃ x, f = .fin x) :
    findsOwn P C ⟨.float, attr, wr⟩ a (.float f) = true := by
  refine findsOwn_of_keyOk hP hC _ rfl a hw _ ?_
  rcases hf with rfl | ⟨x, rfl⟩ <;> simp [keyOk, valid]

/-- **Enums**: the name of every member — the default member included, which is stored as an absent
attribute — is found again (`_StringyEnumMixin`: a member equals its name; the table obligation checks
that every enum class of every slot has the mixin). -/
theorem enum_key_found (P : Params) (C : Cmp P) (hP : P.Lawful) (hC : C.Lawful) (e : EnumCls) (dflt attr : Pods.Str)
    (wr : Bool) (hd : (⟨.enum e dflt, attr, wr⟩ : Desc).wf = true) (a : Attrs) (hw : wr = true ∨ a.has attr = false)
    (s : Pods.Str) (hs : (e.byName s).isSome = true) :
    findsOwn P C ⟨.enum e dflt, attr, wr⟩ a (.str s) = true :=
  findsOwn_of_keyOk hP hC _ hd a hw _ (by simp [keyOk, valid, hs])

/-- The literal reading: *every* value the descriptor accepts (C07's `valid`) is found again. **False.** -/
def TypedKeys_full (P : Params) (C : Cmp P) : Prop :=
  ∀ (d : Desc), d.wf = true → ∀ (a : Attrs), (d.writable = true ∨ a.has d.attr = false) →
    ∀ v : PyVal P, valid P d v = true → findsOwn P C d a v = true

/-- **HTML, the part that holds**: markup that `repair_html` leaves unchanged is found again. -/
theorem html_key_partial (P : Params) (C : Cmp P) (hP : P.Lawful) (hC : C.Lawful) (attr : Pods.Str) (wr : Bool)
    (a : Attrs) (hw : wr = true ∨ a.has attr = false) (s : Pods.Str)
    (hv : valid P ⟨.html, attr, wr⟩ (.str s) = true) (hfix : P.repair s = some s) :
    findsOwn P C ⟨.html, attr, wr⟩ a (.str s) = true :=
  findsOwn_of_keyOk hP hC _ rfl a hw _ (by simp [keyOk, hv, hfix])

/-- **HTML, the excluded point**: with a repair that rewrites the value (as libxml2 turns `a & b` into
`a &amp; b`) the object is not found again — known finding `sync-twice|creates-again|html-find-key`. -/
theorem html_key_full_fails : ∃ (P : Params) (C : Cmp P), P.Lawful ∧ C.Lawful ∧ ¬ TypedKeys_full P C := by
  refine ⟨Toy.growing, growingC, Toy.growing_lawful, growingC_lawful, fun h => ?_⟩
  have := h ⟨.html, ['d'], true⟩ rfl [] (Or.inl rfl) (.str ['a']) rfl
  revert this
  decide

/-- **YAML null is never found again** on an attribute whose default is not `None` (every kind but the
timestamp): the attribute is removed and reads `""` / `False` / `0` / the default member, none of which
equals `None` — known finding `sync-twice|creates-again|null-find-key`. -/
theorem null_key_fails (P : Params) (C : Cmp P) (d : Desc) (hd : d.wf = true) (hk : d.kind ≠ .datetime)
    (a : Attrs) (hw : d.writable = true ∨ a.has d.attr = false) :
    findsOwn P C d a .none = false ∧ valid P d .none = true :=
  ⟨findsOwn_null d hd hk a hw, by simp [valid]⟩

/-- **Timestamps, exactly**: an aware timestamp is found again iff Python equates it with its millisecond
truncation; for the concrete codec of C07 that is: iff its microseconds are a multiple of 1000. -/
theorem datetime_key_exact (attr : Pods.Str) (wr : Bool) (a : Attrs) (hw : wr = true ∨ a.has attr = false)
    (t : DT) (hv : DT.isoOk t = true) :
    findsOwn dtP dtC ⟨.datetime, attr, wr⟩ a (.aware t) = decide (t.us % 1000 = 0) := by
  rw [findsOwn_aware dtP_lawful ⟨.datetime, attr, wr⟩ rfl rfl a hw t (by simp only [valid]; exact hv)]
  exact dt_tEq_trunc_iff t

/-- `2001-01-01T10:00:00.123456+00:00` is accepted and not found again (known finding
`sync-twice|creates-again|datetime-find-key`). -/
theorem datetime_submilli_fails :
    findsOwn dtP dtC ⟨.datetime, "value".toList, true⟩ [] (.aware ⟨2001, 1, 1, 10, 0, 0, 123456, 0⟩) = false := by
  rw [datetime_key_exact _ _ _ (Or.inl rfl) _ (by decide)]
  decide

/-- **A naive timestamp is never found again**: it is stored as local time, read back aware, and
`aware == naive` is false (same known finding). -/
theorem datetime_naive_fails (P : Params) (C : Cmp P) (hP : P.Lawful) (attr : Pods.Str) (wr : Bool) (a : Attrs)
    (hw : wr = true ∨ a.has attr = false) (n : P.N) (hv : valid P ⟨.datetime, attr, wr⟩ (.naive n) = true) :
    findsOwn P C ⟨.datetime, attr, wr⟩ a (.naive n) = false :=
  findsOwn_naive hP _ rfl rfl a hw n hv

/-- **An int as find value of a float attribute** is found again iff `float(i) == i`, i.e. iff the float
holds it exactly. -/
theorem float_int_key_exact (P : Params) (C : Cmp P) (hP : P.Lawful) (hC : C.Lawful) (attr : Pods.Str) (wr : Bool)
    (a : Attrs) (hw : wr = true ∨ a.has attr = false) (i : Int) (x : P.F) (hx : P.fOfInt i = some x) :
    findsOwn P C ⟨.float, attr, wr⟩ a (.int i) = C.fEqInt x i :=
  findsOwn_float_int hP hC _ rfl rfl a hw i x hx

/-- … and with a `float()` that rounds (`float(2**53 + 1) == 2.0**53`; in the toy instance `float(9) = 8.0`)
the accepted value is not found again — known finding `sync-twice|creates-again|float-find-key`. -/
theorem float_int_key_fails :
    rounding.Lawful ∧ roundingC.Lawful ∧ valid rounding ⟨.float, "value".toList, true⟩ (.int 9) = true ∧
    findsOwn rounding roundingC ⟨.float, "value".toList, true⟩ [] (.int 9) = false :=
  ⟨rounding_lawful, roundingC_lawful, rfl, by
    rw [float_int_key_exact rounding roundingC rounding_lawful roundingC_lawful _ _ _ (Or.inl rfl) 9 (8 : Int) rfl]
    decide⟩

open Capella.Decl in
/-- **Typed `created_entry_is_found`**: the object is created from the values *as the descriptors store
and return them* (`nrm key value`), the next run compares with the find values as written. If every find
value is a fixed point of its attribute's normalisation (and no `set` key overrides a find key), the
created object is afterwards the one and only match. -/
theorem created_typed_entry_is_found (nrm : Capella.Decl.Str → RVal → RVal) (g : Graph) (par : Id)
    (attr : Capella.Decl.Str) (nid : Id) (cls : Capella.Decl.Str)
    (rs rk : List (Capella.Decl.Str × RVal)) (ty : Option Capella.Decl.Str)
    (hfresh : g.clsOf nid = none) (hnm : nid ∉ g.members par attr) (hcls : ∀ t, ty = some t → cls = t)
    (hnone : g.findAmong (g.members par attr) ty rk = .ok none) (hk : KeysKept rk rs)
    (hfix : ∀ kv ∈ rk, nrm kv.1 kv.2 = kv.2) :
    (g.create par attr nid cls (normKVs nrm rs)).findAmong
        ((g.create par attr nid cls (normKVs nrm rs)).members par attr) ty rk = .ok (some nid) :=
  created_normalised_is_found nrm g par attr nid cls rs rk ty hfresh hnm hcls hnone hk hfix

/-- the normalisation of a string-valued attribute with descriptor `d`, on the values of the sync machine -/
def strNorm (P : Params) (d : Desc) : Capella.Decl.RVal → Capella.Decl.RVal
  | .str s => match norm P d [] (.str s) with | .str r => .str r | _ => .str s
  | v => v

/-- … and the string kinds deliver the fixed-point hypothesis: every XML-legal string for a `StringPOD`
attribute, every string `repair_html` keeps for an `HTMLStringPOD` attribute. -/
theorem str_fixed_point (P : Params) (hP : P.Lawful) (d : Desc) (s : Pods.Str)
    (h : (d.kind = .string ∧ xmlOk s = true) ∨
         (d.kind = .html ∧ valid P d (.str s) = true ∧ P.repair s = some s)) :
    strNorm P d (.str s) = .str s := by
  obtain ⟨kind, attr, wr⟩ := d
  have hwf : (⟨kind, attr, wr⟩ : Desc).wf = true := by rcases h with ⟨h, _⟩ | ⟨h, _⟩ <;> (simp only at h; subst h; rfl)
  have hv : valid P ⟨kind, attr, wr⟩ (.str s) = true := by
    rcases h with ⟨h, hs⟩ | ⟨_, hv, _⟩
    · simp only at h; subst h; simpa [valid] using hs
    · exact hv
  obtain ⟨a', hset, w, hget, hsame⟩ := get_set_of_codec ⟨kind, attr, wr⟩ [] (.str s) (Or.inr rfl) (codec_cases hP _ hwf _ hv)
  have hden : denote P ⟨kind, attr, wr⟩ (.str s) = .str s := by
    rcases h with ⟨h, _⟩ | ⟨h, _, hr⟩ <;> (simp only at h; subst h; simp [denote, *])
  rw [hden] at hsame
  have hw : w = .str s := by
    rcases hsame with h | ⟨x, y, _, h, _, _⟩
    · exact h
    · cases h
  simp [strNorm, norm, roundTrip, hset, hget, hw]

end typed

/-! ## non-vacuity -/

def s (x : String) : Str := x.toList

def sample : DVal :=
  .map [(s "parent", .promise (s "p 1")),
        (s "set", .map [(s "a", .newobj (.str (s "Class")) [(s "name", .str (s "x")), (s "sub", .uuid (s "ab-1"))]),
                        (s "b", .find [(s "_type", .str (s "Class")), (s "k", .promise (s "q"))])])]

example : WF sample := by
  simp [sample, WF, WFkvs, noTypeKey, s, kType]
  decide

example : (match loadWithMetadata (dumpDocs [sample] [(s "written_by", .map [(s "capellambse", .str (s "1.0"))])]) with
    | .ok (m, i) => m.length + i.length | .error _ => 0) = 2 := by decide

example : isPep440 (s "2!1.0.12rc3.post4.dev5") = true ∧ isPep440 (s "1.01") = false ∧ isPep440 (s "1.0+local") = false := by
  decide

/-- the excluded values really do not round-trip: a malformed UUID is rejected on load, a new-object
marker without type hint cannot be constructed -/
def errOf (r : Except YErr DVal) : Option YErr := match r with | .error e => some e | .ok _ => none
example : errOf (construct (represent (.uuid (s "not a uuid")))) = some .valueError := by decide
example : errOf (construct (represent (.newobj (.str []) []))) = some .valueError := by decide

/-! ### typed find keys: non-vacuity -/
section
open Capella.Pods Capella.DeclTyped

/-- the laws are satisfiable, and concrete values of every kind are in the domain of `typed_key_found` -/
example : Toy.params.Lawful ∧ toyC.Lawful := ⟨Toy.lawful, toyC_lawful⟩
example : keyOk Toy.params toyC ⟨.string, ['n'], true⟩ (.str "a & b".toList) = true := by decide
example : keyOk Toy.params toyC ⟨.bool, ['b'], true⟩ (.bool true) = true := by decide
example : keyOk Toy.params toyC ⟨.int, ['i'], true⟩ (.int (-5)) = true := by decide
example : keyOk Toy.params toyC ⟨.float, ['f'], true⟩ (.float .inf) = true := by decide
example : keyOk Toy.params toyC ⟨.enum Capella.Gen.Pods.e_VisibilityKind "UNSET".toList, ['v'], true⟩
    (.str "UNSET".toList) = true := by decide
example : syncTwice Toy.params toyC ⟨.bool, ['b'], true⟩ [] (.int 1) = .rejected .assertionError := by decide
example : syncTwice Toy.params toyC ⟨.bool, ['b'], true⟩ [] (.int 0) = .found := by decide
example : syncTwice Toy.growing growingC ⟨.html, ['d'], true⟩ [] (.str ['a']) = .createsAgain := by decide
example : DT.isoOk ⟨2001, 1, 1, 10, 0, 0, 123000, 19800000000⟩ = true := by decide
example : dtC.Lawful :=
  ⟨fun (x : Int) => by show decide (x = x) = true; simp,
   fun (x y : Int) (hx : (x == 0) = true) (hy : (y == 0) = true) => by
     show decide (x = y) = true
     simp only [beq_iff_eq] at hx hy; simp [hx, hy],
   fun (x : Int) (hx : (x == 0) = true) => by
     show decide (x = 0) = true
     simp only [beq_iff_eq] at hx; simp [hx],
   fun t => by show decide (DT.instant t = DT.instant t) = true; simp⟩
end

end Capella.Props.C13
