import Capella.Lemmas.DeclYaml
import Capella.Lemmas.DeclSync
import Capella.Lemmas.DeclSync2
import Capella.Lemmas.DeclPep440

/-!
# C13 — declarative sync is idempotent; instruction documents survive dump and load

Property theorems only. Models: `Capella/Model/Decl.lean` (the sync operator as part of the machine of
`decl.apply`) and `Capella/Model/DeclYaml.lean` (tag codec, metadata layout, metadata matcher).
-/
namespace Capella.Props.C13
open Capella.DeclYaml

/-- **The marker layer round-trips**: constructing (`YDMLoader`) what was represented (`YDMDumper`) gives
the value back, for every nesting of promises, UUID references, find directives, new-object markers,
dicts and lists — provided UUID references hold valid UUID strings and new-object markers carry a
non-empty string type hint and no `_type` keyword. -/
theorem tags_roundtrip (v : DVal) (h : WF v) : construct (represent v) = .ok v :=
  construct_represent v h

/-- **Instruction streams with metadata survive dump and load**: `load_with_metadata` applied to the
documents `dump` writes returns the metadata block and the instruction list unchanged (one document
when there is no metadata, two otherwise). -/
theorem stream_roundtrip (instrs : List DVal) (md : List (Str × DVal)) (hi : WFlist instrs) (hm : WFkvs md) :
    loadWithMetadata (dumpDocs instrs md) = .ok (md, instrs) :=
  load_dump instrs md hi hm

/-- **The version matcher is exact**: `_is_pep440` accepts a string iff it is
`[N!]N(.N)*[(a|b|rc)N][.postN][.devN]` with every `N` a decimal number without leading zeros
(no local versions, no separators other than `.`, no implicit numbers). -/
theorem pep440_exact (str : Str) : isPep440 str = true ↔ ∃ v : Ver, v.WF ∧ v.render = str :=
  ⟨isPep440_sound str, fun ⟨v, hv, hs⟩ => hs ▸ isPep440_complete v hv⟩

/-- `_verify_metadata` accepts exactly when a metadata block is present, names a well-formed writer
version that is not newer than the running one, and URL, revision and entry point equal the model's. -/
theorem verify_ok_iff (newEnough : Bool) (info : Info) (m : Meta) :
    verifyMetadata newEnough info m = .ok () ↔
      m.present = true ∧ m.writtenBy ≠ [] ∧ isPep440 m.writtenBy = true ∧ newEnough = true ∧
      m.url = info.url ∧ m.revision = info.revHash ∧ m.entrypoint = info.entrypoint := by
  unfold verifyMetadata
  cases hp : m.present <;> cases hw : m.writtenBy <;> cases h4 : isPep440 m.writtenBy <;> cases newEnough <;>
    by_cases hu : m.url = info.url <;> by_cases hr : m.revision = info.revHash <;>
    by_cases he : m.entrypoint = info.entrypoint <;> simp_all

/-! ## sync -/

open Capella.Decl in
/-- **A second run over a settled document changes nothing and creates nothing**: if every sync entry of
every instruction (recursively through nested `sync`) finds exactly one object in its list and that
object already carries the entry's `set` values, then `apply` returns the very same graph — whatever the
promise ids, type hints, nesting depth and number of instructions. -/
theorem settled_run_changes_nothing {mm : MM} {g : Graph}
    {doc : List Instr} {g' : Graph} {ps' : Promises} (hdoc : ∀ i ∈ doc, SettledInstr g i)
    (h : apply mm g doc = .ok (g', ps')) : g' = g :=
  settled_apply hdoc h

open Capella.Decl in
/-- **… and the second run does not raise**: over a settled document in which no promise id is declared
twice, `apply` returns — with the very same graph. (A settled state can only ever meet "promise_id defined
twice", and that needs an id declared twice; such a document fails on the first run as well.) Together
with `settled_run_changes_nothing`: the second run finds everything, creates nothing, changes nothing,
raises nothing. -/
theorem settled_second_run_succeeds {mm : MM} {g : Graph} {doc : List Instr}
    (hdoc : ∀ i ∈ doc, SettledInstr g i) (hpid : ∀ q, sumBy (Instr.pidN (indS q)) doc ≤ 1) :
    ∃ ps', apply mm g doc = .ok (g, ps') :=
  settled_apply_ok hdoc hpid

open Capella.Decl in
/-- **The first run settles an entry it creates** — exactly when no `set` key overrides a `find` key: if
nothing in the list matched the find, the object created from `find | set` is afterwards the one and
only match, provided the last value assigned to every find key is the find value (`KeysKept`). This is
where the hypothesis "find keys disjoint from set keys" is forced. -/
theorem created_entry_is_found (g : Graph) (par : Id) (attr : Capella.Decl.Str) (nid : Id) (cls : Capella.Decl.Str)
    (rs rk : List (Capella.Decl.Str × RVal)) (ty : Option Capella.Decl.Str)
    (hfresh : g.clsOf nid = none) (hnm : nid ∉ g.members par attr) (hcls : ∀ t, ty = some t → cls = t)
    (hnone : g.findAmong (g.members par attr) ty rk = .ok none) (hk : KeysKept rk rs) :
    (g.create par attr nid cls rs).findAmong ((g.create par attr nid cls rs).members par attr) ty rk
      = .ok (some nid) :=
  created_is_found g par attr nid cls rs rk ty hfresh hnm hcls hnone hk

open Capella.Decl in
/-- and the values the entry sets are then present: an attribute holds the last value assigned to it -/
theorem created_entry_has_set_values (g : Graph) (par : Id) (attr : Capella.Decl.Str) (nid : Id)
    (cls : Capella.Decl.Str) (rs : List (Capella.Decl.Str × RVal)) (k : Capella.Decl.Str) (v : RVal)
    (h : rs.reverse.lookup k = some v) : (g.create par attr nid cls rs).getScal nid k = some v := by
  rw [create_getScal_new, h]

section
open Capella.Decl

def ds (x : String) : Capella.Decl.Str := x.toList

/-- sync-only: no create/extend/set/delete on instruction level (entries may carry anything) -/
def SyncOnly (doc : List Instr) : Prop :=
  ∀ i ∈ doc, i.create = [] ∧ i.ext = [] ∧ i.set = [] ∧ i.del = []

/-- Idempotence for *all* sync-only documents: a second application returns the graph the first one
left. **False** (`sync_idempotent_full_fails`): a `set` key may override a `find` key. -/
def SyncIdempotent_full : Prop :=
  ∀ (mm : MM) (g : Graph) (doc : List Instr) (g1 g2 : Graph) (ps1 ps2 : Promises),
    SyncOnly doc → apply mm g doc = .ok (g1, ps1) → apply mm g1 doc = .ok (g2, ps2) → g2 = g1

/-- `find: {name: A}`, `set: {name: B}` below object 1 -/
def overrideDoc : List Instr := [
  { parent := .atom (.uuid 1),
    sync := [(ds "classes", [.mk 10 11 none [(ds "name", .str (ds "A"))] none
      [(ds "name", .scalar (.atom (.str (ds "B"))))] [] []])] }]

def g0 : Graph := { objs := [(1, ds "DataPkg")] }

def objCount (r : Except Err (Graph × Promises)) : Option Nat :=
  match r with | .ok r => some r.1.objs.length | .error _ => none

/-- first run: 2 objects; second run on its result: 3 -/
theorem override_counts :
    objCount (apply (MM.free []) g0 overrideDoc) = some 2 ∧
    objCount ((apply (MM.free []) g0 overrideDoc).bind fun r => apply (MM.free []) r.1 overrideDoc) = some 3 := by
  decide

/-- The statement without the hypothesis is refuted by the model (and, replayed on every run, by the
implementation: known finding `sync-twice|creates-again|set-overrides-find-key`). -/
theorem sync_idempotent_full_fails : ¬ SyncIdempotent_full := by
  intro h
  have hc := override_counts
  cases h1 : apply (MM.free []) g0 overrideDoc with
  | error e => simp [h1, objCount] at hc
  | ok r1 =>
    obtain ⟨g1, ps1⟩ := r1
    simp only [h1, Except.bind] at hc
    cases h2 : apply (MM.free []) g1 overrideDoc with
    | error e => simp [h2, objCount] at hc
    | ok r2 =>
      obtain ⟨g2, ps2⟩ := r2
      have := h (MM.free []) g0 overrideDoc g1 g2 ps1 ps2 (by intro i hi; simp [overrideDoc] at hi; subst hi; simp) h1 h2
      simp [h2, objCount] at hc
      rw [this] at hc
      omega

/-- a settled state: object 5 named `A` is in `classes` of 1 and already has `description = d` -/
def gSettled : Graph :=
  { objs := [(1, ds "DataPkg"), (5, ds "Class")],
    scal := [((5, ds "name"), .str (ds "A")), ((5, ds "description"), .str (ds "d"))],
    edges := [(1, ds "classes", 5)] }

def settledDoc : List Instr := [
  { parent := .atom (.uuid 1),
    sync := [(ds "classes", [.mk 10 11 (some (ds "Class")) [(ds "name", .str (ds "A"))] (some (ds "p"))
      [(ds "description", .scalar (.atom (.str (ds "d"))))] [] []])] }]

example : ∀ i ∈ settledDoc, SettledInstr gSettled i := by
  intro i hi
  simp only [settledDoc, List.mem_cons, List.mem_nil_iff, or_false] at hi
  subst hi
  refine ⟨1, Or.inl ⟨rfl, by decide⟩, rfl, rfl, rfl, rfl, ?_⟩
  refine ⟨⟨⟨rfl, trivial, 5, [(ds "name", .str (ds "A"))], by rfl, ⟨by rfl, trivial⟩, trivial⟩, trivial⟩, trivial⟩

example : (match apply (MM.free []) gSettled settledDoc with | .ok r => some (decide (r.1 = gSettled), r.2) | .error _ => none)
    = some (true, [(ds "p", 5)]) := by decide

/-- the promise ids of `settledDoc` are distinct (hypothesis of `settled_second_run_succeeds`) -/
example : ∀ q, sumBy (Instr.pidN (indS q)) settledDoc ≤ 1 := by
  intro q
  by_cases h : ds "p" = q <;> simp [settledDoc, sumBy, Instr.pidN, kidsPidN, setPidN, syncPidN, sosPidN, SyncObj.pidN, SetVal.pidN, optN, indS, h]

end

/-! ## non-vacuity -/

def s (x : String) : Str := x.toList

def sample : DVal :=
  .map [(s "parent", .promise (s "p 1")),
        (s "set", .map [(s "a", .newobj (.str (s "Class")) [(s "name", .str (s "x")), (s "sub", .uuid (s "ab-1"))]),
                        (s "b", .find [(s "_type", .str (s "Class")), (s "k", .promise (s "q"))])])]

example : WF sample := by
  simp [sample, WF, WFkvs, noTypeKey, s, kType]
  decide

example : (match loadWithMetadata (dumpDocs [sample] [(s "written_by", .map [(s "capellambse", .str (s "1.0"))])]) with
    | .ok (m, i) => m.length + i.length | .error _ => 0) = 2 := by decide

example : isPep440 (s "2!1.0.12rc3.post4.dev5") = true ∧ isPep440 (s "1.01") = false ∧ isPep440 (s "1.0+local") = false := by
  decide

/-- the excluded values really do not round-trip: a malformed UUID is rejected on load, a new-object
marker without type hint cannot be constructed -/
def errOf (r : Except YErr DVal) : Option YErr := match r with | .error e => some e | .ok _ => none
example : errOf (construct (represent (.uuid (s "not a uuid")))) = some .valueError := by decide
example : errOf (construct (represent (.newobj (.str []) []))) = some .valueError := by decide

end Capella.Props.C13
