import Capella.Lemmas.DeclYaml

/-!
# C13 — declarative sync is idempotent; instruction documents survive dump and load

Property theorems only. Models: `Capella/Model/Decl.lean` (the sync operator as part of the machine of
`decl.apply`) and `Capella/Model/DeclYaml.lean` (tag codec, metadata layout, metadata matcher).
-/
namespace Capella.Props.C13
open Capella.DeclYaml

/-- **The marker layer round-trips**: constructing (`YDMLoader`) what was represented (`YDMDumper`) gives
the value back, for every nesting of promises, UUID references, find directives, new-object markers,
dicts and lists — provided UUID references hold valid UUID strings and new-object markers carry a
non-empty string type hint and no `_type` keyword. -/
theorem tags_roundtrip (v : DVal) (h : WF v) : construct (represent v) = .ok v :=
  construct_represent v h

/-- **Instruction streams with metadata survive dump and load**: `load_with_metadata` applied to the
documents `dump` writes returns the metadata block and the instruction list unchanged (one document
when there is no metadata, two otherwise). -/
theorem stream_roundtrip (instrs : List DVal) (md : List (Str × DVal)) (hi : WFlist instrs) (hm : WFkvs md) :
    loadWithMetadata (dumpDocs instrs md) = .ok (md, instrs) :=
  load_dump instrs md hi hm

/-! ## non-vacuity -/

def s (x : String) : Str := x.toList

def sample : DVal :=
  .map [(s "parent", .promise (s "p 1")),
        (s "set", .map [(s "a", .newobj (.str (s "Class")) [(s "name", .str (s "x")), (s "sub", .uuid (s "ab-1"))]),
                        (s "b", .find [(s "_type", .str (s "Class")), (s "k", .promise (s "q"))])])]

example : WF sample := by
  simp [sample, WF, WFkvs, noTypeKey, s, kType]
  decide

example : (match loadWithMetadata (dumpDocs [sample] [(s "written_by", .map [(s "capellambse", .str (s "1.0"))])]) with
    | .ok (m, i) => m.length + i.length | .error _ => 0) = 2 := by decide

/-- the excluded values really do not round-trip: a malformed UUID is rejected on load, a new-object
marker without type hint cannot be constructed -/
def errOf (r : Except YErr DVal) : Option YErr := match r with | .error e => some e | .ok _ => none
example : errOf (construct (represent (.uuid (s "not a uuid")))) = some .valueError := by decide
example : errOf (construct (represent (.newobj (.str []) []))) = some .valueError := by decide

end Capella.Props.C13
