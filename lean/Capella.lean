-- Root of the `Capella` library: imports every model, lemma, property and driver module.
import Capella.Props.C14
import Capella.Driver.Main
